#!/bin/bash
# wave4_confirm.sh <area> <k> <where>  — confirmation of a fourth-wave mutant in its scratch worktree /tmp/wx-<area>
a="$1"; k="$2"; where="$3"; wt=${WTPREFIX:-/tmp/wx-}$a
case "$where" in
  demo) demo="cd _mutants/demo && cargo test --offline --test m${k}_demo" ;;
  vm)   demo="cp _mutants/m${k}_demo.rs vm/tests/m${k}_demo.rs && cargo test -p pest_vm --test m${k}_demo --offline; rc=\$?; rm -f vm/tests/m${k}_demo.rs; exit \$rc" ;;
  meta) demo="mkdir -p meta/tests && cp _mutants/m${k}_demo.rs meta/tests/m${k}_demo.rs && cargo test -p pest_meta --test m${k}_demo --offline; rc=\$?; rm -rf meta/tests; exit \$rc" ;;
  grammars) demo="cp _mutants/m${k}_demo.rs grammars/tests/m${k}_demo.rs && cargo test -p pest_grammars --test m${k}_demo --offline; rc=\$?; rm -f grammars/tests/m${k}_demo.rs; exit \$rc" ;;
  dbg) demo="mkdir -p debugger/tests && cp _mutants/m${k}_demo.rs debugger/tests/m${k}_demo.rs && cargo test -p pest_debugger --test m${k}_demo --offline; rc=\$?; rm -rf debugger/tests; exit \$rc" ;;
  pest) demo="cp _mutants/m${k}_demo.rs pest/tests/m${k}_demo.rs && cargo test -p pest --features pretty-print --test m${k}_demo --offline; rc=\$?; rm -f pest/tests/m${k}_demo.rs; exit \$rc" ;;
esac
echo "$demo" > /tmp/confirm4-$a-m$k.cmd
/verif/tools/confirm_mutant.sh "$wt" "$wt/_mutants/m$k.diff" "$demo" > /tmp/confirm4-$a-m$k.txt 2>&1
tail -3 /tmp/confirm4-$a-m$k.txt | sed "s/^/$a-m$k: /"
