#!/usr/bin/env python3
"""kf.py add <property> <id> <status> <signature> <witness> <commit|-> <what> -- appends an entry to known_findings.json"""
import json, sys
p = "/verif/known_findings.json"
d = json.load(open(p))
_, _, prop, fid, status, sig, witness, commit, what = sys.argv
e = {"property": prop, "id": fid, "status": status, "signature": sig, "witness": witness, "what": what}
if commit != "-":
    e["commit"] = commit
e["line"] = (f"fixed: property={prop} {commit} {what}" if status == "fixed" else f"KNOWN-FINDING: property={prop} {what}")
d["findings"] = [x for x in d["findings"] if not (x["property"] == prop and x["id"] == fid)] + [e]
json.dump(d, open(p, "w"), indent=1, ensure_ascii=False)
