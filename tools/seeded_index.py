#!/usr/bin/env python3
"""Regenerates /verif/seeded/INDEX.md from the meta.json files."""
import json, glob, os
rows = []
for p in sorted(glob.glob("/verif/seeded/*/meta.json")):
    m = json.load(open(p))
    d = os.path.basename(os.path.dirname(p))
    checks = m.get("checks", {})
    det = [f"{c} ({v.get('tier','quick')}): {v['result']}" + (f" [{v['signature'].replace('signature: ','')}]" if v.get('signature') else "") for c, v in checks.items()]
    rows.append((d, m["property"], m.get("needs_to_manifest", ""), "; ".join(det), m.get("note", "")))
out = ["# Seeded breaking changes", "",
       "Each directory holds `patch.diff` (applies to /repo with `git apply`), the sub-agent's demonstration and description, and `meta.json`.",
       "Every change was produced by an independent sub-agent that saw only the property text and its own scratch worktree, and was confirmed with",
       "`tools/confirm_mutant.sh` (patch applies; `cargo nextest run --workspace` still shows the baseline 528 passed + 1 baseline failure; the demo fails with",
       "the change and passes without). `tools/try_mutant.sh` applies a patch to /repo, runs a check and reverts. None of these changes is ever committed to /repo.", "",
       "| change | property | needs, to manifest | checks run against it (result) | note |", "|---|---|---|---|---|"]
for r in rows:
    out.append("| " + " | ".join(x.replace("|", "\\|").replace("\n", " ") for x in r) + " |")
n = len(rows)
detected = sum(1 for r in rows if "DETECTED" in r[3])
out += ["", f"{detected} of {n} changes are detected by at least one registered check in the tier shown."]
open("/verif/seeded/INDEX.md", "w").write("\n".join(out) + "\n")
print(f"{detected}/{n}")
