#!/bin/bash
# fuzz_tier.sh <target> <property> <runs-per-job> [jobs]  — coverage-guided campaign (libFuzzer via cargo-fuzz)
# with the property's oracle inside the target. Exit 0 = no finding; 1 = VIOLATION (artifact converted to a
# replay file); 2 = inconclusive (build problem, time-out or out-of-memory input, which are reported, never a violation).
set -u
target="$1"; prop="$2"; runs="$3"; jobs="${4:-8}"
VERIF="$(cd "$(dirname "$(readlink -f "$0")")/.." && pwd)"; FZ=$VERIF/fuzz; WORK=$VERIF/work
seed="${VERIF_SEED:-1}"
corpus=$WORK/fuzz-corpus/$target; art=$WORK/fuzz-artifacts/$target
rm -rf "$corpus" "$art"; mkdir -p "$corpus" "$art"
case "$target" in
  meta_total) cp $FZ/seeds/meta/* "$corpus"/; dict=$FZ/meta.dict; maxlen=2048 ;;
  meta_diff)  for f in $FZ/seeds/meta/*; do ( printf '\001'; cat "$f" ) > "$corpus/$(basename $f)"; done; dict=$FZ/meta.dict; maxlen=2048 ;;
  json_rfc)   cp $FZ/seeds/json/* "$corpus"/; dict=$FZ/json.dict; maxlen=1024 ;;
  peg_struct) for i in 1 2 3 4 5 6 7 8; do python3 -c "
import hashlib,sys
s=('%s-%s'%(sys.argv[1],sys.argv[2])).encode(); out=b''
while len(out)<3000: s=hashlib.sha256(s).digest(); out+=s
sys.stdout.buffer.write(out)" "$seed" "$i" > "$corpus/seed$i"; done; dict=/dev/null; maxlen=4096 ;;
esac
# AddressSanitizer for the byte-level text targets (pest's unsafe string slicing is on their path); none for the two
# heavy structured/differential targets (under ASan they run 10x slower and their resident set grows past any limit)
case "$target" in peg_struct|meta_diff) san=none; tdir=$FZ/target-nosan ;; *) san=address; tdir=$FZ/target ;; esac
cd $FZ || exit 2
# cargo-fuzz sets RUSTFLAGS itself (which hides [build] rustflags of .cargo/config.toml) but appends the caller's
RUSTFLAGS="--cfg pest_parser_pest_verif" CARGO_NET_OFFLINE=true cargo +nightly fuzz build --fuzz-dir . --sanitizer $san --target-dir "$tdir" "$target" > $WORK/fuzz-build-$target.log 2>&1 || { echo "INCONCLUSIVE property=$prop: fuzz target $target did not build (see $WORK/fuzz-build-$target.log)" >&2; exit 2; }
bin=$tdir/x86_64-unknown-linux-gnu/release/$target
log=$WORK/fuzz-$target.log
rundir=$WORK/fuzz-run-$target; rm -rf "$rundir"; mkdir -p "$rundir"   # libFuzzer writes fuzz-<job>.log into the cwd
( cd "$rundir" && "$bin" -artifact_prefix="$art/" -runs="$runs" -seed="$seed" -max_len=$maxlen $( [ "$dict" = /dev/null ] || echo -dict="$dict" ) -len_control=0 -timeout=120 -rss_limit_mb=4096 -jobs="$jobs" -workers="$jobs" "$corpus" > "$log" 2>&1 )
rm -rf "$rundir"
execs=$(grep -hoE "Done [0-9]+ runs" "$log" | awk '{s+=$2} END {print s+0}')
echo "fuzz target=$target property=$prop executions=$execs jobs=$jobs seed=$seed corpus_files=$(ls "$corpus" | wc -l)"
python3 - "$corpus" "$art" "$WORK/fuzz-$target.json" "$target" "$execs" "$jobs" "$seed" "$log" <<'PY'
import json,os,sys,re
corpus,art,out,target,execs,jobs,seed,log=sys.argv[1:9]
files=sorted(os.listdir(corpus))
big=sorted(files,key=lambda f:-os.path.getsize(os.path.join(corpus,f)))
def show(f): return open(os.path.join(corpus,f),'rb').read()[:160].decode('utf-8','replace')
cov=[int(x) for x in re.findall(r"cov: (\d+)",open(log,errors='replace').read())]
json.dump({"engine":"libFuzzer (cargo-fuzz), oracle inside the target","target":target,"executions":int(execs),"jobs":int(jobs),"seed":int(seed),
  "corpus_files_at_end":len(files),"max_edge_coverage_reported":max(cov) if cov else 0,
  "artifacts":sorted(os.listdir(art)),
  "corpus_samples":[show(f) for f in (big[:2]+files[:2])]},open(out,"w"),indent=1)
PY
rc=0
nmin=0
for a in "$art"/crash-* ; do
  [ -e "$a" ] || continue
  case "$a" in *.min) continue ;; esac
  # shrink the first two artifacts with libFuzzer's own minimiser (bounded work; the target aborts only when the oracle fails)
  if [ $nmin -lt 2 ]; then
    nmin=$((nmin+1))
    "$bin" -minimize_crash=1 -runs=20000 -max_total_time=90 -exact_artifact_path="$a.min" "$a" > "$WORK/fuzz-min-$target.log" 2>&1
    if [ -s "$a.min" ]; then grep -h "PV-REPLAY-JSON" "$WORK/fuzz-min-$target.log" >> "$log"; mv "$a.min" "$a"; fi
  fi
  out=$VERIF/replays/$prop/found-fuzz-$(basename "$a").json
  python3 - "$a" "$out" "$prop" "$target" "$log" <<'PY'
import json,sys
a,out,prop,target=sys.argv[1:5]
data=open(a,'rb').read()
if target=="meta_diff":
    sel=data[0] if data else 0; data=data[1:]
text=data.decode('utf-8','replace')
case={"text":text} if prop in ("C09","C14") else ({"input":text} if prop=="C18" else {"libfuzzer_bytes_hex":data.hex()})
if target=="meta_diff":
    case["rule_selector_byte"]=sel
panics=[l.strip() for l in open(sys.argv[5],errors='replace') if l.startswith("panic: ")][:3]
doc={"property":prop,"signature":"found-by-libfuzzer:crash-without-oracle-message","message":f"libFuzzer artifact {a}; panics seen in the campaign log: {panics}","case":case}
# the oracle inside the target prints the exact replay record; prefer it when it is for this input
import re
for line in open(sys.argv[5],errors='replace'):
    if line.startswith("PV-REPLAY-JSON "):
        try:
            d=json.loads(line[len("PV-REPLAY-JSON "):])
            if d["case"].get("text",d["case"].get("input"))==text or (target=="peg_struct" and doc["signature"].startswith("found-by-libfuzzer")): doc=d
        except Exception: pass
# a rider oracle inside the target may belong to another property: the record says which
import os
if doc["property"]!=prop:
    out=out.replace(f"/replays/{prop}/",f"/replays/{doc['property']}/"); os.makedirs(os.path.dirname(out),exist_ok=True)
json.dump(doc,open(out,"w"))
print(f"VIOLATION property={doc['property']} replay={out}")
PY
  grep -h "PV-VIOLATION" "$log" | head -2 | cut -c1-400
  rc=1
done
if [ $rc -eq 0 ]; then
  for a in "$art"/timeout-* "$art"/oom-* "$art"/leak-*; do
    [ -e "$a" ] || continue
    echo "INCONCLUSIVE property=$prop: libFuzzer stopped on $(basename "$a") (time-out/out-of-memory input kept under $art)" >&2
    rc=2
  done
fi
exit $rc
