#!/bin/bash
# try_mutant.sh <patch.diff> <Cxx> [tier]  — applies a seeded change to /repo, runs the check, reverts.
# Prints DETECTED / MISSED / INCONCLUSIVE and leaves /repo exactly as it was.
set -u
patch="$(readlink -f "$1")"; id="$2"; tier="${3:-quick}"
cd /repo || exit 2
if ! git diff --quiet; then echo "refusing: /repo has uncommitted changes" >&2; exit 2; fi
git apply "$patch" 2>/dev/null || git apply --3way "$patch" >/dev/null 2>&1 || { echo "patch does not apply" >&2; git reset -q --hard HEAD; exit 2; }
out=$(cd /verif && ./check "$id" "$tier" 2>&1); rc=$?
git -C /repo reset -q --hard HEAD; git -C /repo clean -fdq -- . >/dev/null 2>&1
rm -f /verif/replays/"$id"/found-*
echo "$out" | grep -E "^(VIOLATION|  signature|property=|INCONCLUSIVE|KNOWN)" | cut -c1-400 | head -12
case $rc in 1) echo "RESULT $id: DETECTED";; 0) echo "RESULT $id: MISSED";; *) echo "RESULT $id: INCONCLUSIVE (exit $rc)";; esac
# restore evidence of the unchanged tree
exit 0
