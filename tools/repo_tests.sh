#!/bin/bash
# Runs the repository's own suite with the verif guard OFF (baseline: 528 passed, 1 known failure pest_vm::surround::quote).
# Exit 0 only if exactly that holds.
cd /repo && cargo nextest run --workspace --no-fail-fast --offline 2>&1 | tee /tmp/repo_tests.log | grep -E "^\s+(Summary|FAIL|SIGABRT|SIGSEGV)|error\[" | sort -u
grep -q "528 passed, 1 failed" /tmp/repo_tests.log && grep -q "FAIL .*pest_vm::surround quote" /tmp/repo_tests.log
