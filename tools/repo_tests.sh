#!/bin/bash
# Runs the repository's own suite with the verif guard OFF (baseline: 528 passed, 1 known failure pest_vm::surround::quote).
cd /repo && cargo nextest run --workspace --no-fail-fast --offline 2>&1 | tee /tmp/repo_tests.log | grep -E "^\s+(Summary|FAIL)|error\[" | sort -u
