#!/bin/bash
# batch_try.sh: for mutants already confirmed by confirm_only.sh. Lines: <Cxx> <k> <checks,comma> <needs...>
while read -r id k checks needs; do
  [ -z "$id" ] && continue
  echo "=== $id-m$k"
  if ! grep -q "CONFIRM: OK" /tmp/confirm-$id-m$k.txt 2>/dev/null; then echo "not confirmed"; continue; fi
  /verif/tools/keep_mutant.sh "$id" "$k" /tmp/wt-$id "$needs" "$(cat /tmp/confirm-$id-m$k.cmd)" >/dev/null
  for c in ${checks//,/ }; do
    r=$(/verif/tools/try_mutant.sh /verif/seeded/$id-m$k/patch.diff "$c" 2>&1 </dev/null)
    echo "$r" | grep -E "signature|RESULT|INCONCLUSIVE" | head -4
    python3 - "$id" "$k" "$c" "$(echo "$r" | grep RESULT | head -1)" "$(echo "$r" | grep signature | head -1)" <<'PY'
import json,sys
id,k,c,res,sig=sys.argv[1:6]
p=f"/verif/seeded/{id}-m{k}/meta.json"
m=json.load(open(p)); m["checks"][c]={"tier":"quick","result":res.split(": ",1)[-1] if res else "?", "signature":sig.strip()}
json.dump(m,open(p,"w"),indent=1)
PY
  done
done
