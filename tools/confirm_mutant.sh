#!/bin/bash
# confirm_mutant.sh <worktree> <diff> "<demo command run from worktree root>"
# Confirms in the scratch worktree: applies, suite still shows the baseline, demo fails with and passes without.
set -u
wt="$1"; diff="$2"; demo="$3"; LOG=$(mktemp /tmp/confirm_suite.XXXXXX)
cd "$wt" || exit 2
git checkout -q -- . ; 
git apply "$diff" || { echo "CONFIRM: patch does not apply"; exit 1; }
cargo nextest run --workspace --no-fail-fast --offline > $LOG 2>&1
suite=$(grep -E "^\s+Summary" $LOG | tail -1)
echo "suite with mutant: $suite"
( eval "$demo" ) > $LOG.with 2>&1; with=$?
git apply -R "$diff"
( eval "$demo" ) > $LOG.without 2>&1; without=$?
git checkout -q -- .
echo "demo exit with mutant: $with ; without: $without"
if echo "$suite" | grep -q "528 passed, 1 failed" && [ $with -ne 0 ] && [ $without -eq 0 ]; then echo "CONFIRM: OK"; else echo "CONFIRM: NOT CONFIRMED"; fi
