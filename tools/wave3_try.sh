#!/bin/bash
# wave3_try.sh < list : keep confirmed third-wave mutants as seeded/<Cxx>-m<k+2> and run the listed checks against them
while read -r id k where checks needs; do
  [ -z "$id" ] && continue
  kk=$((k+2)); wt=/tmp/ww-$id; d=/verif/seeded/$id-m$kk
  echo "=== $id-m$kk"
  grep -q "CONFIRM: OK" /tmp/confirm3-$id-m$k.txt || { echo "not confirmed"; continue; }
  mkdir -p $d; cp $wt/_mutants/m$k.diff $d/patch.diff; cp $wt/_mutants/m$k.md $d/description.md; cp $wt/_mutants/m${k}_demo.rs $d/m${kk}_demo.rs
  demo=$(sed "s/m${k}_demo/m${kk}_demo/g; s#_mutants/#/verif/seeded/$id-m$kk/#g" /tmp/confirm3-$id-m$k.cmd)
  python3 - "$id" "$kk" "$needs" "$demo" "$d" <<'PY'
import json,sys
id,k,needs,demo,d=sys.argv[1:6]
json.dump({"property":id,"mutant":f"{id}-m{k}","breaks":id,"wave":3,"needs_to_manifest":needs,
 "confirmed":{"applies":True,"suite_with_mutant":"528 passed, 1 failed (baseline)","demo_command":demo,"demo_fails_with_mutant":True,"demo_passes_without":True,
              "how":"tools/confirm_mutant.sh in the sub-agent's scratch worktree (never in /repo)"},
 "checks":{}}, open(f"{d}/meta.json","w"), indent=1)
PY
  for c in ${checks//,/ }; do
    r=$(/verif/tools/try_mutant.sh $d/patch.diff "$c" 2>&1 </dev/null)
    echo "$r" | grep -E "signature|RESULT|INCONCLUSIVE" | head -4
    python3 - "$id" "$kk" "$c" "$(echo "$r" | grep RESULT | head -1)" "$(echo "$r" | grep signature | head -1)" <<'PY'
import json,sys
id,k,c,res,sig=sys.argv[1:6]
p=f"/verif/seeded/{id}-m{k}/meta.json"
m=json.load(open(p)); m["checks"][c]={"tier":"quick","result":res.split(": ",1)[-1] if res else "?", "signature":sig.strip()}
json.dump(m,open(p,"w"),indent=1)
PY
  done
done
