#!/bin/bash
# batch_retry.sh: re-run checks against already kept mutants and update meta.json. Lines: <Cxx> <k> <checks>
while read -r id k checks rest; do
  [ -z "$id" ] && continue
  echo "=== $id-m$k"
  for c in ${checks//,/ }; do
    r=$(/verif/tools/try_mutant.sh /verif/seeded/$id-m$k/patch.diff "$c" 2>&1 </dev/null)
    echo "$r" | grep -E "signature|RESULT|INCONCLUSIVE" | head -3
    python3 - "$id" "$k" "$c" "$(echo "$r" | grep RESULT | head -1)" "$(echo "$r" | grep signature | head -1)" <<'PY'
import json,sys
id,k,c,res,sig=sys.argv[1:6]
p=f"/verif/seeded/{id}-m{k}/meta.json"
m=json.load(open(p))
prev=m["checks"].get(c)
new={"tier":"quick","result":res.split(": ",1)[-1] if res else "?", "signature":sig.strip()}
if prev and prev.get("result")!=new["result"]:
    new["before_strengthening"]=prev["result"]
m["checks"][c]=new
json.dump(m,open(p,"w"),indent=1)
PY
  done
done
