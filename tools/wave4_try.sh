#!/bin/bash
# wave4_try.sh < list : keep confirmed fourth-wave mutants as seeded/<Cxx>-m<n> (next free number) and run the listed checks
while read -r a k where id checks needs; do
  [ -z "$a" ] && continue
  wt=${WTPREFIX:-/tmp/wx-}$a
  grep -q "CONFIRM: OK" /tmp/confirm4-$a-m$k.txt || { echo "=== $a-m$k not confirmed"; continue; }
  n=1; while [ -e /verif/seeded/$id-m$n ]; do n=$((n+1)); done
  d=/verif/seeded/$id-m$n; mkdir -p $d
  echo "=== $a-m$k -> $id-m$n"
  cp $wt/_mutants/m$k.diff $d/patch.diff; cp $wt/_mutants/m$k.md $d/description.md; cp $wt/_mutants/m${k}_demo.rs $d/m${n}_demo.rs
  [ -d $wt/_mutants/demo ] && { mkdir -p $d/demo; rsync -a --exclude target $wt/_mutants/demo/ $d/demo/; }
  python3 - "$id" "$n" "$needs" "$(cat /tmp/confirm4-$a-m$k.cmd)" "$d" <<'PY'
import json,sys
id,k,needs,demo,d=sys.argv[1:6]
json.dump({"property":id,"mutant":f"{id}-m{k}","breaks":id,"wave":4,"needs_to_manifest":needs,
 "confirmed":{"applies":True,"suite_with_mutant":"528 passed, 1 failed (baseline)","demo_command_in_scratch_worktree":demo,"demo_fails_with_mutant":True,"demo_passes_without":True,
              "how":"tools/confirm_mutant.sh in the sub-agent's scratch worktree (never in /repo)"},
 "checks":{}}, open(f"{d}/meta.json","w"), indent=1)
PY
  for c in ${checks//,/ }; do
    r=$(/verif/tools/try_mutant.sh $d/patch.diff "$c" 2>&1 </dev/null)
    echo "$r" | grep -E "signature|RESULT|INCONCLUSIVE" | head -4
    python3 - "$id" "$n" "$c" "$(echo "$r" | grep RESULT | head -1)" "$(echo "$r" | grep signature | head -1)" <<'PY'
import json,sys
id,k,c,res,sig=sys.argv[1:6]
p=f"/verif/seeded/{id}-m{k}/meta.json"
m=json.load(open(p)); m["checks"][c]={"tier":"quick","result":res.split(": ",1)[-1] if res else "?", "signature":sig.strip()}
json.dump(m,open(p,"w"),indent=1)
PY
  done
done
