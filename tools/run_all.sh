#!/bin/bash
# run_all.sh [tier] — every registered check on the current tree; prints one line per check.
tier="${1:-quick}"; cd "$(dirname "$(readlink -f "$0")")/.."
for id in C01 C02 C03 C04 C05 C06 C07 C08 C09 C10 C11 C12 C13 C14 C15 C16 C17 C18; do
  s=$(date +%s); out=$(./check $id $tier 2>&1); rc=$?; e=$(( $(date +%s) - s ))
  echo "$id exit=$rc ${e}s $(echo "$out" | grep -E '^property=' | sed 's/property=[A-Z0-9]* tier=[a-z]* //' | tr '\n' ' ' | cut -c1-200)"
  [ $rc -ne 0 ] && echo "$out" | grep -E "VIOLATION|signature|INCONCLUSIVE" | head -5
done
