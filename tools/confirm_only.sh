#!/bin/bash
# confirm_only.sh <Cxx> <k> <where> — confirmation in the sub-agent's worktree only; writes /tmp/confirm-<Cxx>-m<k>.txt
id="$1"; k="$2"; where="$3"; wt=/tmp/wt-$id
case "$where" in
  demo) demo="cd _mutants/demo && cargo test --offline --test m${k}_demo" ;;
  vm)   demo="cp _mutants/m${k}_demo.rs vm/tests/m${k}_demo.rs && cargo test -p pest_vm --test m${k}_demo --offline; rc=\$?; rm -f vm/tests/m${k}_demo.rs; exit \$rc" ;;
  pest) demo="cp _mutants/m${k}_demo.rs pest/tests/m${k}_demo.rs && cargo test -p pest --features pretty-print --test m${k}_demo --offline; rc=\$?; rm -f pest/tests/m${k}_demo.rs; exit \$rc" ;;
  meta) demo="mkdir -p meta/tests && cp _mutants/m${k}_demo.rs meta/tests/m${k}_demo.rs && cargo test -p pest_meta --test m${k}_demo --offline; rc=\$?; rm -rf meta/tests; exit \$rc" ;;
  grammars) demo="cp _mutants/m${k}_demo.rs grammars/tests/m${k}_demo.rs && cargo test -p pest_grammars --test m${k}_demo --offline; rc=\$?; rm -f grammars/tests/m${k}_demo.rs; exit \$rc" ;;
  debugger) demo="mkdir -p debugger/tests && cp _mutants/m${k}_demo.rs debugger/tests/m${k}_demo.rs && cargo test -p pest_debugger --test m${k}_demo --offline; rc=\$?; rm -rf debugger/tests; exit \$rc" ;;
esac
echo "$demo" > /tmp/confirm-$id-m$k.cmd
/verif/tools/confirm_mutant.sh "$wt" "$wt/_mutants/m$k.diff" "$demo" > /tmp/confirm-$id-m$k.txt 2>&1
