#!/bin/bash
# wave3_confirm.sh <Cxx> <k> <where>  — confirmation of a third-wave mutant in its scratch worktree /tmp/ww-<Cxx>
id="$1"; k="$2"; where="$3"; wt=/tmp/ww-$id
case "$where" in
  vm)   demo="cp _mutants/m${k}_demo.rs vm/tests/m${k}_demo.rs && cargo test -p pest_vm --test m${k}_demo --offline; rc=\$?; rm -f vm/tests/m${k}_demo.rs; exit \$rc" ;;
  pest) demo="cp _mutants/m${k}_demo.rs pest/tests/m${k}_demo.rs && cargo test -p pest --features pretty-print --test m${k}_demo --offline; rc=\$?; rm -f pest/tests/m${k}_demo.rs; exit \$rc" ;;
  meta) demo="mkdir -p meta/tests && cp _mutants/m${k}_demo.rs meta/tests/m${k}_demo.rs && cargo test -p pest_meta --test m${k}_demo --offline; rc=\$?; rm -rf meta/tests; exit \$rc" ;;
  grammars) demo="cp _mutants/m${k}_demo.rs grammars/tests/m${k}_demo.rs && cargo test -p pest_grammars --test m${k}_demo --offline; rc=\$?; rm -f grammars/tests/m${k}_demo.rs; exit \$rc" ;;
  dbg) demo="mkdir -p debugger/tests && cp _mutants/m${k}_demo.rs debugger/tests/m${k}_demo.rs && cargo test -p pest_debugger --test m${k}_demo --offline; rc=\$?; rm -rf debugger/tests; exit \$rc" ;;
esac
echo "$demo" > /tmp/confirm3-$id-m$k.cmd
/verif/tools/confirm_mutant.sh "$wt" "$wt/_mutants/m$k.diff" "$demo" > /tmp/confirm3-$id-m$k.txt 2>&1
tail -3 /tmp/confirm3-$id-m$k.txt | sed "s/^/$id-m$k: /"
