#!/usr/bin/env python3
"""Merge per-configuration evidence files (default / grammar-extras) into one evidence file."""
import json, sys
out, parts = sys.argv[1], sys.argv[2:4]
evs = [json.load(open(p)) for p in parts]
names = sys.argv[4:6] if len(sys.argv) >= 6 else ["default", "extras"]
m = dict(evs[0])
cov = dict(evs[0]["coverage"])
cov["evaluations"] = sum(e["coverage"]["evaluations"] for e in evs)
cov["distinct_nontrivial"] = sum(e["coverage"]["distinct_nontrivial"] for e in evs)
cov["samples"] = [s for e in evs for s in e["coverage"]["samples"][:6]]
classes = {}
for n, e in zip(names, evs):
    for k, v in e["coverage"].get("classes", {}).items():
        classes[f"{n}:{k}"] = v
cov["classes"] = classes
cov["excluded_by_construction"] = sum(e["coverage"].get("excluded_by_construction", 0) for e in evs)
cov["exhaustive"] = all(e["coverage"].get("exhaustive", False) for e in evs)
cov["replayed_witnesses"] = sum(e["coverage"].get("replayed_witnesses", 0) for e in evs)
cov["known_findings_reported"] = sorted(set(x for e in evs for x in e["coverage"].get("known_findings_reported", [])))
cov["notes"] = [f"{n}: {x}" for n, e in zip(names, evs) for x in e["coverage"].get("notes", [])][:40]
cov["configurations"] = names[:len(evs)]
m["coverage"] = cov
m["wall_s"] = sum(e["wall_s"] for e in evs)
m["violations"] = sum(e.get("violations", 0) for e in evs)
json.dump(m, open(out, "w"), indent=1)
