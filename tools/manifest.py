#!/usr/bin/env python3
"""Regenerates /verif/MANIFEST.json from the table below (keeps it valid at all times)."""
import json, subprocess, os
HERE = os.path.dirname(os.path.dirname(os.path.abspath(__file__)))
props = [json.loads(l) for l in open(f"{HERE}/properties.jsonl")]

# id -> (technique, level text, level note, design ref)
CHECKS = {
 "C01": ("differential against an independent reference evaluator (written from the prose) over proptest-generated grammars x all start rules x generated + exhaustively enumerated inputs, both feature configurations",
         "Exploration: ~10^7 (quick) parses of ~80k generated grammars per configuration are compared (accept/reject and exact token stream) with the reference semantics evaluated on the unoptimized AST; every short string over each grammar's alphabet is enumerated for a subset. Sampled, not a proof.",
         "Trusts harness/pv/src/refsem.rs as the reading of the documented semantics (calibration and ambiguity decisions in DESIGN.md 3.4), pest::unicode::by_name for Unicode property built-ins, and skips cases the prose leaves undefined (empty-stack POP/PEEK) or that diverge. Grammars touched by the lister rewrite are set aside (C05 finding D7). Thorough adds a libFuzzer campaign (fuzz/fuzz_targets/peg_struct.rs: byte-decoded grammars, C01's oracle with C05/C12/C15 riders, 0.8M executions, default features).",
         "DESIGN.md section 4, C01"),
 "C02": ("differential testing of the real #[derive(Parser)] output against the VM: batches of generated grammars compiled into scratch crates at check time, both feature configurations",
         "Exploration: 16 batches x 70 generated grammars per configuration (quick; 450 thorough), every rule as start rule x ~12 inputs (~40k parse pairs per configuration); token streams, error positions and rule-name sets and panic-ness must agree; generated code that rustc rejects for an accepted grammar is itself a violation.",
         "Grammars are not shrunk (smallest failing case per batch is reported). Cases on which the reference evaluator is undefined or diverges are not run. Tag-only mismatches are classified; a tag directly on a repetition/optional is open finding D12c.",
         "DESIGN.md section 4, C02"),
 "C03": ("model-based testing: proptest-generated trees of public ParserState calls run in lockstep with an operational model, state compared after every operation through a cfg snapshot hook; two builds (memchr on/off)",
         "Exploration: ~1.5M programs x 6 inputs per build (quick) plus every skip_until set of <= 3 short strings on every short input; position, token queue, stack, look-ahead and atomicity are compared after each of the program's operations, and the final pest::state result at the end.",
         "Trusts the model in harness/pv/src/c03.rs (where rustdoc is silent it mirrors the code; listed in the evidence assumptions). The no-memchr build is a separate cargo package/target dir so feature unification cannot re-enable memchr.",
         "DESIGN.md section 4, C03"),
 "C04": ("model-based testing of every Pairs/Pair/FlatPairs/Tokens view against a plain tree and VecDeque models, over by-construction trees (PairsBuilder) and real VM parses, with generated observation scripts",
         "Exploration: 150k built trees + ~70k parsed trees (quick), each observed through ~20 static views and a generated script of <= 30 iterator steps on three iterators and on Pairs::single; JSON output parsed back and compared structurally.",
         "Trusts the tree/deque model in harness/pv/src/c04.rs. Tag placement of parsed trees is only cross-checked between views.",
         "DESIGN.md section 4, C04"),
 "C05": ("metamorphic per-pass equivalence under an independent reference evaluator, exhaustive over all short inputs per generated grammar; restorer checked differentially against the real VM",
         "Exploration: ~100k generated grammars per configuration (rules shaped like each pass's pattern), each pass applied alone through the cfg hook, before/after compared on every string of length <= 3 (<= 4 thorough) over the grammar's alphabet for every start rule: outcome, end, tokens, final stack. Bounded-exhaustive per grammar, sampled over grammars.",
         "Trusts refsem.rs on both sides of each comparison (C01 ties it to the VM). Node tags are not compared (placement undocumented). Open finding D7 (lister) is recognised by an exact signature: the pass output equals the documented (x~y)*~x rewrite.",
         "DESIGN.md section 4, C05"),
 "C06": ("generated-grammar search with an exact divergence oracle (recurrence of a finite configuration in the reference evaluator), demonstrated on the real VM in a child process; by-construction well-formed grammars for the completeness direction",
         "Exploration: ~800k unrepaired stack-free grammars (quick), of which ~27% are accepted; each accepted grammar is run on every string of length <= 3 over its alphabet from every rule, and the evaluator must never prove divergence; 200k by-construction well-formed grammars must be accepted. Sampled over grammars, exhaustive over short inputs.",
         "Trusts refsem.rs's 1:1 lowering of optimized rules and its recurrence detection (exact for stack-free grammars). Open finding D15 (recursion through the implicit WHITESPACE/COMMENT call) is recognised by the model's cycle containing an implicit-skip entry; any other escape is still a violation. Runs under both feature configurations (default, grammar-extras); evidence merged.",
         "DESIGN.md section 4, C06"),
 "C12": ("metamorphic limit sweep over generated grammar/input cases (every limit value up to the number of calls the parse needs, counted by a cfg hook)",
         "Exploration: ~60k generated grammars (quick) x rules x inputs, each parsed once without a limit and once per swept limit L (all L when the parse needs <= 400 calls); each limited result must be the unlimited result or `call limit reached`, and completion must be monotone in L.",
         "Trusts the hook counter only to size the sweep (the oracle does not depend on it). VM back-end only. Cases whose unlimited parse panics (empty-stack POP/PEEK) are skipped. Runs under both feature configurations (default, grammar-extras); evidence merged.",
         "DESIGN.md section 4, C12"),
 "C13": ("differential against an independently written shunting-yard over proptest operator tables and well-formed sequences, three implementations (Pratt, ConstPratt, PrecClimber)",
         "Exploration: ~400k random (table, sequence) cases (quick) plus all sequences of <= 3 operand groups over a fixed table with every operator kind; S-expressions must equal the shunting-yard's and pass an independent use-once/in-order predicate.",
         "Trusts the 60-line shunting-yard in harness/pv/src/c13.rs as the reading of the statement's binding powers.",
         "DESIGN.md section 4, C13"),
 "C14": ("three-way differential (checked-in generated parser / grammar file through the current optimizer + VM / parser derived at harness build time) on mutated real grammars, spelled generated grammars, token soup and fragments x every meta-grammar rule",
         "Exploration: ~120k (text, start rule) cases (quick); token streams or error position + rule-name sets must be pairwise identical between the three engines.",
         "The rule-name table in harness/pv/src/c14.rs must list the meta-grammar's rules (checked at run time against grammar.pest; a mismatch is reported). A change that needs regenerating grammar.rs shows up as a disagreement, which is the point. Thorough adds a libFuzzer campaign (fuzz/fuzz_targets/meta_diff.rs, 320k executions, same three-way oracle in-target).",
         "DESIGN.md section 4, C14"),
 "C15": ("metamorphic comparison of the same generated parse with error detail off and on, plus validity/renderability predicates on the recorded attempts",
         "Exploration: ~200k generated grammars (quick) x rules x inputs, ~2.5M parse pairs; outcome equality (tokens or error position/line-col/rule sets), no panic with detail on, max_position on a char boundary in range, help message renders.",
         "VM back-end; process-global switch handled by single-threaded worker processes. Says nothing about the *content* of the help message beyond renderability. Runs under both feature configurations (default, grammar-extras); evidence merged.",
         "DESIGN.md section 4, C15"),
 "C07": ("round trip: abstract grammar -> adversarially spelled concrete text -> pest_meta reader -> structural equality, proptest-generated grammars and spellings, both configurations",
         "Exploration: ~400k generated (grammar, spelling) pairs per configuration (quick); every inter-token gap, escape form, doc comment, leading `|` and redundant parenthesis is chosen independently; the rules read back must equal the abstract rules exactly.",
         "Only grammars that pass validation are in the domain (consume_rules validates). The canonical printer and the speller share the precedence table in the harness; a slip there would show as a false alarm, not a miss.",
         "DESIGN.md section 4, C07"),
 "C08": ("trace-based oracle: the statement is evaluated over the real run's forest of rule() invocations (cfg trace hook) for generated failing parses and compared with the reported error",
         "Exploration: ~200k generated grammars (quick), ~3M failing parses; reported position must be the furthest reportable failure, every listed rule must have a matching attempt there, lists strictly sorted, and the expected/unexpected lists must equal the replacement rule's result (exactly, except where a rule matched under negation had rules tried inside it).",
         "Trusts the trace hook to record rule() invocations faithfully (it is additive and off by default). VM back-end; C02 ties the generated back-end's errors to the VM's. Runs under both feature configurations (default, grammar-extras); evidence merged.",
         "DESIGN.md section 4, C08"),
 "C09": ("totality fuzzing of the grammar front-end with token-level mutations of real and generated grammars, truncations and token soup; oracle = returns + located renderable errors",
         "Exploration: ~0.7M texts (quick) from five sources; every call is wrapped in catch_unwind in a worker process whose death is attributed to the journaled in-flight text; error locations are checked against the text and rendered.",
         "Inputs bounded as stated (4 KiB, nesting 200, repetition-count product 4096, unrolled size 256 KiB). 'Bounded time' is read as a linear budget of combinator calls for the meta parser (200/byte, enforced through pest's call limit); validation/optimisation time is covered by the size bounds and a watchdog (inconclusive, exit 2). Thorough adds a libFuzzer campaign (fuzz/fuzz_targets/meta_total.rs, 1.2M executions, same oracle in-target). Runs under both feature configurations (default, grammar-extras); evidence merged.",
         "DESIGN.md section 4, C09"),
 "C10": ("exhaustive small-scope enumeration of strings x offsets x offset pairs + proptest strings, against direct definitions of line/column/line containment",
         "Exploration: all strings of <= 6 symbols (quick) / 8 (thorough) over {a, LF, CR, TAB, e-acute, emoji} with every offset and offset pair, plus random long strings; Position/Span/Pair/Error line-column results and the rendered error text are compared with the definitions. Bounded-exhaustive plus sampled.",
         "Marker alignment is not asserted when a lone CR precedes the offset on its line; empty-span lines() may be empty or the containing line; see DESIGN.md C10.",
         "DESIGN.md section 4, C10"),
 "C11": ("exhaustive small-scope enumeration + proptest histories against a copy-per-snapshot reference model",
         "Exploration: every operation history up to length 8 (quick) / 10 (thorough) is enumerated and longer random histories are sampled; each step is compared with the naive model of the statement. Bounded-exhaustive plus sampled, not a proof.",
         "Trusts the 40-line reference model in harness/pv/src/c11.rs and that element identity = step index suffices to detect mix-ups.",
         "DESIGN.md section 4, C11"),
 "C16": ("exhaustive enumeration of all Unicode scalar values x all advertised property names: partition/union/disjointness laws and three-way agreement (function, by_name, VM built-in)",
         "Exploration, exhaustive over the finite domain for the function/by_name paths and the category laws (exhaustive: true); the VM path is exhaustive in the thorough tier and covers all boundary scalars +-1 and every 61st scalar in the quick tier.",
         "Group membership table written from UAX #44 in the harness; says nothing about whether the tables match a particular Unicode version. The derive path is covered by C02.",
         "DESIGN.md section 4, C16"),
 "C17": ("schedule exploration with shuttle (seeded random and PCT schedulers) over the real debugger source re-targeted onto a shim, driven by proptest-generated scenarios; oracle = breakpoint hits computed from a plain listener run",
         "Exploration: ~4000 generated scenarios (quick) x 200 schedules each (~800k executions); event sequence, at-most-one-event-per-continue, silence while waiting, successful re-run, active termination of the abandoned session, the breakpoint set after add/delete/add-all/delete-all and deadlock-freedom are asserted in every explored schedule.",
         "The shim's park() has no spurious wake-ups; liveness only as deadlock-freedom / step bound (150k steps) of explored schedules; re-runs use channel capacity >= 1. The debugger source is taken from the working tree by build.rs (only its import block is rewritten).",
         "DESIGN.md section 4, C17"),
 "C18": ("differential against a hand-written RFC 8259 recogniser over ABNF-generated documents, their one-edit neighbours, token soup and a near-miss catalogue",
         "Exploration: 150k generated valid documents + 450k one-edit neighbours + 75k token-soup strings (quick); accept/reject must agree and accepted token trees must mirror the recogniser's value tree with exact spans.",
         "Trusts the ~150-line recogniser in harness/pv/src/c18.rs as the reading of the RFC; invalid UTF-8 cannot be expressed as &str and is out of scope. Thorough adds a libFuzzer campaign (fuzz/fuzz_targets/json_rfc.rs, 16M executions, same oracle in-target).",
         "DESIGN.md section 4, C18"),
}
NA_REASON = "check not built yet (work in progress; see DESIGN.md section 9 build order)"

def hook_commits():
    try:
        out = subprocess.check_output(["git", "-C", "/repo", "log", "--format=%H %s"], text=True)
    except Exception:
        return []
    return [l.split()[0] for l in out.splitlines() if " verif-hook:" in " " + l.split(" ", 1)[1] or l.split(" ", 1)[1].startswith("verif-hook")]

checks = []
for p in props:
    i = p["id"]
    if i not in CHECKS:
        continue
    tech, text, note, ref = CHECKS[i]
    checks.append({
        "property_id": i,
        "quick_cmd": f"./check {i} quick",
        "thorough_cmd": f"./check {i} thorough",
        "evidence_file": f"/verif/evidence/{i}.json",
        "replay_cmd_template": "./check --replay {path}",
        "engine": "dbgsim" if i == "C17" else "pv",
        "level_claimed": {"category": "exploration", "text": text, "design_ref": ref},
        "level_note": note,
        "technique": tech,
    })
m = {
 "version": 1,
 "setup_cmd": "./setup.sh",
 "hooks": {
   "guard": "pest_parser_pest_verif",
   "enable": "rustc --cfg pest_parser_pest_verif, set for every harness build by /verif/harness/.cargo/config.toml ([build] rustflags)",
   "baseline_off_cmd": "cd /repo && cargo test --workspace --no-fail-fast --offline",
   "source_commits": hook_commits(),
   "add_only": True,
 },
 "engines": [
   {"name": "dbgsim", "path": "/verif/harness/dbgsim", "serves_properties": ["C17"],
    "kind_free_text": "Rust binary: /repo/debugger/src/lib.rs compiled against a shuttle-backed sync/thread shim (import block rewritten by build.rs), scenarios from proptest, schedules from shuttle's seeded schedulers"},
   {"name": "pvnm", "path": "/verif/harness/pvnm", "serves_properties": ["C03"],
    "kind_free_text": "the C03 check linked against pest without the memchr feature (separate package and target dir)"},
   {"name": "pv", "path": "/verif/harness/pv", "serves_properties": sorted(c for c in CHECKS if c != "C17"),
    "kind_free_text": "Rust harness binary (proptest 1.11 runners with fixed seeds, exhaustive small-scope enumerators, reference models); path-depends on the /repo crates and is rebuilt by ./check on every invocation"},
 ],
 "checks": checks,
 "not_applicable": [{"property_id": p["id"], "reason": NA_REASON} for p in props if p["id"] not in CHECKS],
 "notes": "All checks: ./check <id> <tier>; VERIF_SEED selects the PRNG stream; exit 2 = inconclusive (never a violation).",
}
json.dump(m, open(f"{HERE}/MANIFEST.json", "w"), indent=1)
print("checks:", [c["property_id"] for c in checks])
