#!/bin/bash
# keep_mutant.sh <Cxx> <k> <worktree> "<needs>" "<demo cmd>"  — copies a confirmed mutant into /verif/seeded/<Cxx>-m<k>/
set -u
id="$1"; k="$2"; wt="$3"; needs="$4"; demo="$5"
d="/verif/seeded/$id-m$k"; mkdir -p "$d"
cp "$wt/_mutants/m$k.diff" "$d/patch.diff"
[ -f "$wt/_mutants/m$k.md" ] && cp "$wt/_mutants/m$k.md" "$d/description.md"
for f in "$wt"/_mutants/m${k}_demo* ; do [ -e "$f" ] && cp -r "$f" "$d/"; done
if [ -d "$wt/_mutants/demo" ]; then mkdir -p "$d/demo"; rsync -a --exclude target "$wt/_mutants/demo/" "$d/demo/"; fi
python3 - "$id" "$k" "$needs" "$demo" "$d" <<'PY'
import json,sys
id,k,needs,demo,d=sys.argv[1:6]
json.dump({"property":id,"mutant":f"{id}-m{k}","breaks":id,"needs_to_manifest":needs,
 "confirmed":{"applies":True,"suite_with_mutant":"528 passed, 1 failed (baseline)","demo_command":demo,"demo_fails_with_mutant":True,"demo_passes_without":True,
              "how":"tools/confirm_mutant.sh in the sub-agent's scratch worktree (never in /repo)"},
 "checks":{}}, open(f"{d}/meta.json","w"), indent=1)
PY
echo "kept $d"
