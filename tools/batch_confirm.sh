#!/bin/bash
# batch_confirm.sh: confirm + keep + try a list of mutants. Lines: <Cxx> <k> <crate-for-demo: vm|pest|meta|demo> <check ids comma-separated>
while read -r id k where checks needs; do
  [ -z "$id" ] && continue
  wt=/tmp/wt-$id
  case "$where" in
    demo) demo="cd _mutants/demo && cargo test --offline --test m${k}_demo" ;;
    vm)   demo="cp _mutants/m${k}_demo.rs vm/tests/m${k}_demo.rs && cargo test -p pest_vm --test m${k}_demo --offline; rc=\$?; rm -f vm/tests/m${k}_demo.rs; exit \$rc" ;;
    pest) demo="cp _mutants/m${k}_demo.rs pest/tests/m${k}_demo.rs && cargo test -p pest --features pretty-print --test m${k}_demo --offline; rc=\$?; rm -f pest/tests/m${k}_demo.rs; exit \$rc" ;;
    meta) demo="mkdir -p meta/tests && cp _mutants/m${k}_demo.rs meta/tests/m${k}_demo.rs && cargo test -p pest_meta --test m${k}_demo --offline; rc=\$?; rm -rf meta/tests; exit \$rc" ;;
  esac
  echo "=== $id-m$k"
  res=$(/verif/tools/confirm_mutant.sh "$wt" "$wt/_mutants/m$k.diff" "$demo" 2>&1 | tail -3)
  echo "$res"
  if echo "$res" | grep -q "CONFIRM: OK"; then
    /verif/tools/keep_mutant.sh "$id" "$k" "$wt" "$needs" "$demo" >/dev/null
    for c in ${checks//,/ }; do
      r=$(/verif/tools/try_mutant.sh /verif/seeded/$id-m$k/patch.diff "$c" 2>&1 </dev/null)
      echo "$r" | grep -E "signature|RESULT" | head -4
      python3 - "$id" "$k" "$c" "$(echo "$r" | grep RESULT | head -1)" "$(echo "$r" | grep signature | head -1)" <<'PY'
import json,sys
id,k,c,res,sig=sys.argv[1:6]
p=f"/verif/seeded/{id}-m{k}/meta.json"
m=json.load(open(p)); m["checks"][c]={"tier":"quick","result":res.split(": ",1)[-1] if res else "?", "signature":sig.strip()}
json.dump(m,open(p,"w"),indent=1)
PY
    done
  fi
done
