#!/bin/bash
# Build the harness from files on disk only (offline).
set -e
cd "$(dirname "$0")"
export CARGO_NET_OFFLINE=true
exec ./check --build-only
