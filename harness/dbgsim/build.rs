// Re-targets /repo/debugger/src/lib.rs onto the shim (shuttle) by rewriting its `use std::{..}`
// import block; everything else is compiled verbatim from the working tree. If the block cannot
// be found (the source was restructured) the build fails and ./check reports exit 2.
fn main() {
    let path = "/repo/debugger/src/lib.rs";
    println!("cargo:rerun-if-changed={path}");
    println!("cargo:rerun-if-changed=build.rs");
    let src = std::fs::read_to_string(path).expect("read debugger/src/lib.rs");
    let start = src.find("use std::{").expect("debugger lib.rs: `use std::{` block not found");
    let end = start + src[start..].find("};").expect("debugger lib.rs: end of use block") + 2;
    let block = &src[start..end];
    for needed in ["AtomicBool", "Ordering", "SyncSender as Sender", "Arc", "Mutex", "thread::{self, JoinHandle}"] {
        assert!(block.contains(needed), "debugger lib.rs import block no longer mentions `{needed}`; the shim rewrite must be revisited");
    }
    let replacement = "use std::{collections::HashSet, fs::File, io::{self, Read}, path::Path};\n#[allow(unused_imports)]\nuse crate::shim::{thread::{self, JoinHandle}, Arc, AtomicBool, AtomicI32, AtomicI64, AtomicIsize, AtomicU32, AtomicU64, AtomicUsize, Mutex, Ordering, Sender};";
    // everything before the import block is the licence header, crate docs and inner attributes,
    // none of which can be included below the crate root
    assert!(src[..start].lines().all(|l| { let t = l.trim(); t.is_empty() || t.starts_with("//") || t.starts_with("#![") || t.starts_with("html_") || t == ")]" }), "debugger lib.rs has items before its import block");
    let mut out = String::new();
    out.push_str(replacement);
    out.push_str(&src[end..]);
    let out = match out.find("#[cfg(test)]\nmod test {") {
        Some(i) => out[..i].to_string(),
        None => out,
    };
    let dest = std::path::Path::new(&std::env::var("OUT_DIR").unwrap()).join("debugger_sim.rs");
    std::fs::write(dest, out).unwrap();
}
