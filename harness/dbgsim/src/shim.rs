//! std::sync / std::thread look-alikes backed by shuttle, with the unwind-safety markers the VM's
//! listener bound requires. `park` returns only after an `unpark` (own token; shuttle's park may
//! wake spuriously by design, which is not the timing the property speaks about).

use std::panic::{RefUnwindSafe, UnwindSafe};

pub use std::sync::atomic::Ordering;

pub struct Arc<T: ?Sized>(shuttle::sync::Arc<T>);
impl<T> Arc<T> {
    pub fn new(v: T) -> Self {
        Arc(shuttle::sync::Arc::new(v))
    }
}
impl<T: ?Sized> Clone for Arc<T> {
    fn clone(&self) -> Self {
        Arc(self.0.clone())
    }
}
impl<T: ?Sized> std::ops::Deref for Arc<T> {
    type Target = T;
    fn deref(&self) -> &T {
        &self.0
    }
}
impl<T: ?Sized> UnwindSafe for Arc<T> {}
impl<T: ?Sized> RefUnwindSafe for Arc<T> {}

pub struct Mutex<T>(shuttle::sync::Mutex<T>);
impl<T> Mutex<T> {
    pub fn new(v: T) -> Self {
        Mutex(shuttle::sync::Mutex::new(v))
    }
    pub fn lock(&self) -> std::sync::LockResult<shuttle::sync::MutexGuard<'_, T>> {
        self.0.lock()
    }
}
impl<T> UnwindSafe for Mutex<T> {}
impl<T> RefUnwindSafe for Mutex<T> {}

pub struct AtomicBool(shuttle::sync::atomic::AtomicBool);
impl AtomicBool {
    pub fn new(v: bool) -> Self {
        AtomicBool(shuttle::sync::atomic::AtomicBool::new(v))
    }
    pub fn load(&self, o: Ordering) -> bool {
        self.0.load(o)
    }
    pub fn store(&self, v: bool, o: Ordering) {
        self.0.store(v, o)
    }
    pub fn swap(&self, v: bool, o: Ordering) -> bool {
        self.0.swap(v, o)
    }
}
impl UnwindSafe for AtomicBool {}
impl RefUnwindSafe for AtomicBool {}

/// Integer atomics (a plausible addition to the debugger: counters, generations), same wrapping as AtomicBool.
macro_rules! shim_atomic_int {
    ($($name:ident: $t:ty),*) => { $(
        pub struct $name(shuttle::sync::atomic::$name);
        impl $name {
            pub fn new(v: $t) -> Self {
                $name(shuttle::sync::atomic::$name::new(v))
            }
            pub fn load(&self, o: Ordering) -> $t {
                self.0.load(o)
            }
            pub fn store(&self, v: $t, o: Ordering) {
                self.0.store(v, o)
            }
            pub fn swap(&self, v: $t, o: Ordering) -> $t {
                self.0.swap(v, o)
            }
            pub fn fetch_add(&self, v: $t, o: Ordering) -> $t {
                self.0.fetch_add(v, o)
            }
            pub fn fetch_sub(&self, v: $t, o: Ordering) -> $t {
                self.0.fetch_sub(v, o)
            }
            pub fn compare_exchange(&self, a: $t, b: $t, s: Ordering, f: Ordering) -> Result<$t, $t> {
                self.0.compare_exchange(a, b, s, f)
            }
        }
        impl UnwindSafe for $name {}
        impl RefUnwindSafe for $name {}
    )* };
}
shim_atomic_int!(AtomicUsize: usize, AtomicIsize: isize, AtomicU64: u64, AtomicI64: i64, AtomicU32: u32, AtomicI32: i32);

pub struct Sender<T>(shuttle::sync::mpsc::SyncSender<T>);
impl<T> Clone for Sender<T> {
    fn clone(&self) -> Self {
        Sender(self.0.clone())
    }
}
impl<T> Sender<T> {
    pub fn send(&self, t: T) -> Result<(), shuttle::sync::mpsc::SendError<T>> {
        self.0.send(t)
    }
}
impl<T> UnwindSafe for Sender<T> {}
impl<T> RefUnwindSafe for Sender<T> {}

pub fn sync_channel<T>(cap: usize) -> (Sender<T>, shuttle::sync::mpsc::Receiver<T>) {
    let (tx, rx) = shuttle::sync::mpsc::sync_channel(cap);
    (Sender(tx), rx)
}

pub mod thread {
    use super::{Arc, AtomicBool, Ordering};

    shuttle::thread_local! {
        static TOKEN: std::cell::RefCell<Option<Arc<AtomicBool>>> = std::cell::RefCell::new(None);
    }

    pub struct Thread {
        inner: shuttle::thread::Thread,
        token: Arc<AtomicBool>,
    }
    impl Thread {
        pub fn unpark(&self) {
            self.token.store(true, Ordering::SeqCst);
            self.inner.unpark();
        }
    }

    pub struct JoinHandle<T> {
        inner: shuttle::thread::JoinHandle<T>,
        thread: Thread,
    }
    impl<T> JoinHandle<T> {
        pub fn thread(&self) -> &Thread {
            &self.thread
        }
        pub fn join(self) -> std::thread::Result<T> {
            self.inner.join()
        }
    }

    pub fn spawn<F, T>(f: F) -> JoinHandle<T>
    where
        F: FnOnce() -> T + Send + 'static,
        T: Send + 'static,
    {
        let token = Arc::new(AtomicBool::new(false));
        let t2 = token.clone();
        let inner = shuttle::thread::spawn(move || {
            TOKEN.with(|t| *t.borrow_mut() = Some(t2));
            f()
        });
        let thread = Thread { inner: inner.thread().clone(), token };
        JoinHandle { inner, thread }
    }

    /// Blocks until this thread's token has been set by `unpark` (consumes it).
    pub fn park() {
        let tok = TOKEN.with(|t| t.borrow().clone());
        match tok {
            Some(tok) => {
                while !tok.swap(false, Ordering::SeqCst) {
                    shuttle::thread::park();
                }
            }
            None => shuttle::thread::park(),
        }
    }
}
