//! C17 — the debugger reports exactly the breakpoint hits of the parse under any timing.
//! The debugger source of the working tree is compiled against a shuttle-backed shim (build.rs)
//! and driven by generated scenarios (grammar, input, breakpoints, controller script incl. re-run)
//! under generated schedules (shuttle's random and PCT schedulers, seeded).

#![allow(dead_code, unexpected_cfgs)]

#[path = "../../pv/src/fw.rs"]
mod fw;
#[path = "../../pv/src/gram.rs"]
mod gram;
#[path = "../../pv/src/inputs.rs"]
mod inputs;
#[path = "../../pv/src/refsem.rs"]
mod refsem;
#[path = "../../pv/src/vmrun.rs"]
mod vmrun;
mod shim;

#[allow(clippy::all, unused_imports)]
mod debugger {
    include!(concat!(env!("OUT_DIR"), "/debugger_sim.rs"));
}

use debugger::{DebuggerContext, DebuggerEvent};
use fw::*;
use gram::*;
use inputs::*;
use proptest::prelude::*;
use refsem::Outcome;
use serde_json::{json, Value};
use std::sync::{Arc as StdArc, Mutex as StdMutex};

#[derive(Clone, Debug, PartialEq, Eq, Hash)]
pub enum Act {
    None,
    Add(String),
    Del(String),
    /// add_all_rules_breakpoints
    AddAll,
    /// delete_all_breakpoints
    DelAll,
}

#[derive(Clone, Debug, PartialEq, Eq, Hash)]
pub struct Scenario {
    pub grammar: String,
    pub rule: String,
    pub input: String,
    pub breakpoints: Vec<String>,
    pub script: Vec<Act>,
    /// re-run with a fresh channel when stopped at the k-th hit (0-based), if it exists
    pub rerun_at: Option<usize>,
    /// start a second run right after the first, before receiving anything (capacity 2: room for
    /// one hit and the final event of the first session, so no delivered event is ever stuck)
    pub rerun_immediately: bool,
    pub cap: usize,
    pub sched_seed: u64,
    pub schedules: usize,
    pub pct: bool,
    /// names of the grammar's rules (derived from the grammar text)
    pub all_rules: Vec<String>,
}

fn rule_names(grammar: &str) -> Vec<String> {
    pest_meta::parse_and_optimize(grammar).map(|(_, r)| r.into_iter().map(|r| r.name).collect()).unwrap_or_default()
}

fn scen_json(s: &Scenario) -> Value {
    json!({
        "grammar": s.grammar, "rule": s.rule, "input": s.input, "breakpoints": s.breakpoints,
        "script": s.script.iter().map(|a| match a { Act::None => json!("none"), Act::Add(n) => json!({"add": n}), Act::Del(n) => json!({"del": n}), Act::AddAll => json!("add_all"), Act::DelAll => json!("del_all") }).collect::<Vec<_>>(),
        "rerun_at": s.rerun_at, "rerun_immediately": s.rerun_immediately, "cap": s.cap, "sched_seed": s.sched_seed, "schedules": s.schedules, "pct": s.pct,
    })
}
fn scen_from_json(v: &Value) -> Scenario {
    Scenario {
        grammar: v["grammar"].as_str().unwrap().into(),
        rule: v["rule"].as_str().unwrap().into(),
        input: v["input"].as_str().unwrap().into(),
        breakpoints: v["breakpoints"].as_array().unwrap().iter().map(|x| x.as_str().unwrap().to_string()).collect(),
        script: v["script"]
            .as_array()
            .unwrap()
            .iter()
            .map(|a| {
                if let Some(n) = a.get("add") {
                    Act::Add(n.as_str().unwrap().into())
                } else if let Some(n) = a.get("del") {
                    Act::Del(n.as_str().unwrap().into())
                } else if a.as_str() == Some("add_all") {
                    Act::AddAll
                } else if a.as_str() == Some("del_all") {
                    Act::DelAll
                } else {
                    Act::None
                }
            })
            .collect(),
        rerun_at: v["rerun_at"].as_u64().map(|x| x as usize),
        rerun_immediately: v["rerun_immediately"].as_bool().unwrap_or(false),
        cap: v["cap"].as_u64().unwrap_or(1) as usize,
        sched_seed: v["sched_seed"].as_u64().unwrap_or(1),
        schedules: v["schedules"].as_u64().unwrap_or(200) as usize,
        pct: v["pct"].as_bool().unwrap_or(false),
        all_rules: rule_names(v["grammar"].as_str().unwrap()),
    }
}

/// Every (rule, position) entry of the parse, from a plain VM run with a recording listener.
fn entries_and_end(grammar: &str, rule: &str, input: &str) -> Option<(Vec<(String, usize)>, DebuggerEvent)> {
    let (_, rules) = pest_meta::parse_and_optimize(grammar).ok()?;
    let log: StdArc<StdMutex<Vec<(String, usize)>>> = StdArc::new(StdMutex::new(vec![]));
    let l2 = log.clone();
    let vm = pest_vm::Vm::new_with_listener(
        rules.clone(),
        Box::new(move |r, p| {
            l2.lock().unwrap().push((r, p.pos()));
            false
        }),
    );
    let end = match vm.parse(rule, input) {
        Ok(_) => DebuggerEvent::Eof,
        Err(_) => {
            // the text must be that of a plain VM parse
            let plain = pest_vm::Vm::new(rules);
            match plain.parse(rule, input) {
                Err(e) => DebuggerEvent::Error(e.to_string()),
                Ok(_) => return None,
            }
        }
    };
    let v = log.lock().unwrap().clone();
    Some((v, end))
}

/// The final event of a plain VM run whose listener asks it to stop at entry number `at`.
fn cut_event(grammar: &str, rule: &str, input: &str, at: usize) -> DebuggerEvent {
    let (_, rules) = pest_meta::parse_and_optimize(grammar).expect("grammar");
    let n = StdArc::new(StdMutex::new(0usize));
    let n2 = n.clone();
    let vm = pest_vm::Vm::new_with_listener(
        rules,
        Box::new(move |_, _| {
            let mut g = n2.lock().unwrap();
            *g += 1;
            *g > at
        }),
    );
    match vm.parse(rule, input) {
        Ok(_) => DebuggerEvent::Eof,
        Err(e) => DebuggerEvent::Error(e.to_string()),
    }
}

/// Expected event list: walk the entries with the breakpoint set in force; the controller's k-th
/// action is applied while stopped at the k-th hit. Returns the events up to and including the
/// final one, or up to the re-run point.
thread_local! {
    /// names of the loaded grammar's rules (what add_all_rules_breakpoints adds) and the entry index of the re-run point
    static ALL_RULES: std::cell::RefCell<Vec<String>> = const { std::cell::RefCell::new(vec![]) };
    static STOP_IDX: std::cell::Cell<Option<usize>> = const { std::cell::Cell::new(None) };
}

fn expected(entries: &[(String, usize)], end: &DebuggerEvent, bps: &[String], script: &[Act], rerun_at: Option<usize>) -> (Vec<DebuggerEvent>, Vec<String>, bool) {
    let mut set: std::collections::BTreeSet<String> = bps.iter().cloned().collect();
    let mut out = vec![];
    let mut k = 0;
    STOP_IDX.with(|c| c.set(None));
    for (idx, (r, p)) in entries.iter().enumerate() {
        if set.contains(r) {
            out.push(DebuggerEvent::Breakpoint(r.clone(), *p));
            match script.get(k) {
                Some(Act::Add(n)) => {
                    set.insert(n.clone());
                }
                Some(Act::Del(n)) => {
                    set.remove(n);
                }
                Some(Act::AddAll) => ALL_RULES.with(|a| set.extend(a.borrow().iter().cloned())),
                Some(Act::DelAll) => set.clear(),
                _ => {}
            }
            if rerun_at == Some(k) {
                STOP_IDX.with(|c| c.set(Some(idx)));
                return (out, set.into_iter().collect(), true);
            }
            k += 1;
        }
    }
    out.push(match end {
        DebuggerEvent::Eof => DebuggerEvent::Eof,
        DebuggerEvent::Error(s) => DebuggerEvent::Error(s.clone()),
        DebuggerEvent::Breakpoint(a, b) => DebuggerEvent::Breakpoint(a.clone(), *b),
    });
    (out, set.into_iter().collect(), false)
}

/// One execution of the scenario (called by shuttle once per schedule). Panics on a violation.
fn execute(s: &Scenario, entries: &[(String, usize)], end: &DebuggerEvent, expect_cut: &Option<DebuggerEvent>) {
    ALL_RULES.with(|a| *a.borrow_mut() = s.all_rules.clone());
    let mut ctx = DebuggerContext::default();
    ctx.load_grammar_direct("g", &s.grammar).expect("grammar loads");
    ctx.load_input_direct(s.input.clone());
    for b in &s.breakpoints {
        ctx.add_breakpoint(b.clone());
    }
    let (exp1, bps_after, reran) = expected(entries, end, &s.breakpoints, &s.script, s.rerun_at);
    let (tx, rx) = shim::sync_channel::<DebuggerEvent>(s.cap);
    ctx.run(&s.rule, tx).expect("run");
    if s.rerun_immediately {
        // nothing has been received because nothing had to be: whatever the first session manages
        // to deliver fits in its channel, so a new run must terminate it whatever the timing
        let (tx2, rx2) = shim::sync_channel::<DebuggerEvent>(s.cap);
        let r = ctx.run(&s.rule, tx2);
        assert!(r.is_ok(), "C17: immediate re-run failed: {:?}", r.err().map(|e| e.to_string()));
        let (exp2, _, _) = expected(entries, end, &s.breakpoints, &[], None);
        let mut got2 = vec![];
        let mut conts2 = 0usize;
        loop {
            let ev = rx2.recv().expect("C17: second session's channel closed early");
            let is_bp = matches!(ev, DebuggerEvent::Breakpoint(..));
            got2.push(ev);
            assert!(got2.len() <= 1 + conts2, "C17: {} events delivered after only {} continues (second session)", got2.len(), conts2);
            if !is_bp {
                break;
            }
            assert!(rx2.try_recv().is_err(), "C17: an event was delivered while waiting for a continue (second session)");
            conts2 += 1;
            ctx.cont().expect("C17: cont() failed in the second session");
        }
        assert_eq!(got2, exp2, "C17: events of the immediate re-run differ from the parse's breakpoint hits");
        // the first session may have delivered at most its first hit and its final event
        let mut first = vec![];
        while let Ok(ev) = rx.try_recv() {
            first.push(ev);
        }
        assert!(first.len() <= 2, "C17: the terminated first session delivered {} events without a single continue", first.len());
        return;
    }
    let mut got: Vec<DebuggerEvent> = vec![];
    let mut k = 0usize;
    let mut conts = 0usize;
    let mut keep_old_rx = None;
    loop {
        let ev = rx.recv().expect("C17: the debugger's channel closed before the final event");
        let is_bp = matches!(ev, DebuggerEvent::Breakpoint(..));
        got.push(ev);
        assert!(got.len() <= 1 + conts, "C17: {} events delivered after only {} continues", got.len(), conts);
        if !is_bp {
            break;
        }
        // nothing may be delivered while the debugger waits for a continue
        assert!(rx.try_recv().is_err(), "C17: an event was delivered while waiting for a continue");
        match s.script.get(k) {
            Some(Act::Add(n)) => ctx.add_breakpoint(n.clone()),
            Some(Act::Del(n)) => ctx.delete_breakpoint(n),
            Some(Act::AddAll) => ctx.add_all_rules_breakpoints().expect("C17: add_all_rules_breakpoints failed with a loaded grammar"),
            Some(Act::DelAll) => ctx.delete_all_breakpoints(),
            _ => {}
        }
        if s.rerun_at == Some(k) {
            // every delivered event has been received: a new run must terminate the previous one
            let (tx2, rx2) = shim::sync_channel::<DebuggerEvent>(s.cap);
            let r = ctx.run(&s.rule, tx2);
            assert!(r.is_ok(), "C17: re-run while stopped at hit #{k} failed: {:?}", r.err().map(|e| e.to_string()));
            keep_old_rx = Some((rx, rx2));
            break;
        }
        k += 1;
        conts += 1;
        ctx.cont().expect("C17: cont() failed while stopped at a breakpoint");
    }
    assert_eq!(got, exp1, "C17: events of the first session differ from the parse's breakpoint hits");
    if let Some((old_rx, rx2)) = keep_old_rx {
        assert!(reran);
        // run() has joined the previous session's thread, so whatever it delivered last is in its channel now.
        // "Starting a new run terminates the previous one": when the abandoned parse still had rule entries to
        // make, it must not have run to its natural end (tolerant of *where* it is stopped).
        let mut tail = vec![];
        while let Ok(ev) = old_rx.try_recv() {
            tail.push(ev);
        }
        assert!(tail.len() <= 1, "C17: the terminated session delivered {} more events after the re-run", tail.len());
        if let (Some(ev), Some(cut)) = (tail.last(), expect_cut.as_ref()) {
            assert!(*ev != *end || *cut == *end, "C17: the previous run was not terminated by the re-run: it ran on to its natural end ({ev:?}) although rule entries remained after the stop point");
        }
        // the breakpoint set as the controller left it
        assert_eq!(ctx.list_breakpoints(), bps_after, "C17: list_breakpoints() differs from the set the commands describe");
        // second session: breakpoints as left by the script, no further actions
        let (exp2, _, _) = expected(entries, end, &bps_after, &[], None);
        let mut got2 = vec![];
        loop {
            let ev = rx2.recv().expect("C17: second session's channel closed early");
            let is_bp = matches!(ev, DebuggerEvent::Breakpoint(..));
            got2.push(ev);
            if !is_bp {
                break;
            }
            assert!(rx2.try_recv().is_err(), "C17: an event was delivered while waiting for a continue (second session)");
            ctx.cont().expect("C17: cont() failed in the second session");
        }
        assert_eq!(got2, exp2, "C17: events of the re-run differ from the parse's breakpoint hits");
    }
}

pub fn run_scenario(s: &Scenario) -> Result<(usize, bool), Fail> {
    let Some((entries, end)) = entries_and_end(&s.grammar, &s.rule, &s.input) else { return Ok((0, false)) };
    ALL_RULES.with(|a| *a.borrow_mut() = s.all_rules.clone());
    let (exp, _, reran) = expected(&entries, &end, &s.breakpoints, &s.script, s.rerun_at);
    // what a run stopped at the entry after the re-run point delivers (None: no entry remains, or no re-run)
    let expect_cut: Option<DebuggerEvent> = STOP_IDX.with(|c| c.get()).filter(|i| i + 1 < entries.len()).map(|i| cut_event(&s.grammar, &s.rule, &s.input, i + 1));
    let expect_cut = StdArc::new(expect_cut);
    let hits = exp.iter().filter(|e| matches!(e, DebuggerEvent::Breakpoint(..))).count();
    let s2 = s.clone();
    let e2 = entries.clone();
    let end2 = match &end {
        DebuggerEvent::Eof => DebuggerEvent::Eof,
        DebuggerEvent::Error(x) => DebuggerEvent::Error(x.clone()),
        DebuggerEvent::Breakpoint(a, b) => DebuggerEvent::Breakpoint(a.clone(), *b),
    };
    let end2 = StdArc::new(end2);
    let r = catch(move || {
        let mut cfg = shuttle::Config::new();
        cfg.stack_size = 1 << 20;
        cfg.silence_warnings = true;
        cfg.failure_persistence = shuttle::FailurePersistence::None;
        cfg.max_steps = shuttle::MaxSteps::FailAfter(150_000);
        let f = move || execute(&s2, &e2, &end2, &expect_cut);
        if s.pct {
            shuttle::Runner::new(shuttle::scheduler::PctScheduler::new_from_seed(s.sched_seed, 3, s.schedules), cfg).run(f);
        } else {
            shuttle::Runner::new(shuttle::scheduler::RandomScheduler::new_from_seed(s.sched_seed, s.schedules), cfg).run(f);
        }
    });
    match r {
        Ok(()) => Ok((hits, reran)),
        Err(p) => {
            let sig = if p.contains("was not terminated by the re-run") {
                "c17:previous-run-not-terminated"
            } else if p.contains("list_breakpoints()") {
                "c17:breakpoint-set"
            } else if p.contains("re-run while stopped") {
                "c17:rerun-failed"
            } else if p.contains("deadlock") {
                "c17:deadlock"
            } else if p.contains("events of") {
                "c17:events-differ"
            } else if p.contains("delivered") {
                "c17:delivered-while-waiting"
            } else if p.contains("exceeded max_steps") || p.contains("max_steps") {
                "c17:livelock"
            } else {
                "c17:panic"
            };
            Err(Fail::new(sig, format!("scenario {}: {p}", scen_json(s)), scen_json(s)))
        }
    }
}

// ------------------------------------------------------------------ generation
fn scenario_strategy(schedules: usize) -> impl Strategy<Value = (Gram, InputSpec, Vec<u16>, u64, bool)> {
    let cfg = GenCfg { extras: false, stack_ops: false, max_rules: 4, ws_prob: 0.4, allow_shadow: false, depth: 3 };
    let _ = schedules;
    (grammar_strategy(cfg), spec_strategy(), proptest::collection::vec(any::<u16>(), 12..24), any::<u64>(), any::<bool>())
}

fn build_scenario(g: &Gram, spec: &InputSpec, ch: &[u16], sched_seed: u64, pct: bool, schedules: usize) -> Option<Scenario> {
    let text = print_grammar(g);
    let c = vmrun::compile(&text).ok()?;
    let cg = refsem::grammar_from_ast(&c.ast, false).ok()?;
    let mut chooser = Chooser::new(ch);
    let rules = cg.order.clone();
    let rule = rules[chooser.pick(rules.len())].clone();
    let alpha = alphabet(&cg);
    let input = realise(&cg, &rule, spec, &alpha);
    let (m, facts) = refsem::run(&cg, &rule, &input);
    if !matches!(m, Outcome::Match { .. } | Outcome::NoMatch) || facts.rule_calls > 60 {
        return None;
    }
    // breakpoint names: user rules plus a few built-ins the listener also sees
    let mut names = rules.clone();
    for b in ["ANY", "EOI", "SOI", "ASCII_DIGIT", "ASCII_ALPHA", "NEWLINE"] {
        names.push(b.into());
    }
    let mut bps = vec![];
    for n in &names {
        if chooser.pick(3) != 0 {
            bps.push(n.clone());
        }
    }
    if bps.is_empty() {
        bps.push(rule.clone());
    }
    let mut script = vec![];
    for _ in 0..6 {
        script.push(match chooser.pick(12) {
            0 | 1 => Act::Add(names[chooser.pick(names.len())].clone()),
            2 | 3 => Act::Del(names[chooser.pick(names.len())].clone()),
            4 => Act::AddAll,
            5 => Act::DelAll,
            _ => Act::None,
        });
    }
    let rerun_at = if chooser.pick(2) == 1 { Some(chooser.pick(4)) } else { None };
    let rerun_immediately = rerun_at.is_none() && chooser.pick(3) == 0;
    // a rendezvous channel cannot take the previous session's final event during run(): re-runs use capacity >= 1
    let cap = if rerun_immediately { 2 } else if rerun_at.is_some() { 1 + chooser.pick(2) } else { chooser.pick(3) };
    let all_rules = rule_names(&text);
    Some(Scenario { grammar: text, rule, input, breakpoints: bps, script, rerun_at, rerun_immediately, cap, sched_seed, schedules, pct, all_rules })
}

fn run(ctx: &mut Ctx) {
    ctx.max_shrink_iters = 48; // a failing scenario can cost 150k steps x hundreds of schedules
    let schedules = ctx.tier.pick(200, 2000);
    let n = ctx.share(ctx.tier.pick(4000, 40_000));
    ctx.run_prop(n, 1, scenario_strategy(schedules), move |ctx, (g, spec, ch, seed, pct)| {
        let Some(s) = build_scenario(g, spec, ch, *seed, *pct, schedules) else {
            ctx.class("scenario:skipped");
            return Ok(());
        };
        let (hits, reran) = run_scenario(&s)?;
        ctx.evals_n(s.schedules as u64);
        ctx.class("scenario:run");
        let changes = s.script.iter().take(hits).any(|a| !matches!(a, Act::None));
        if s.rerun_immediately {
            ctx.class("immediate-rerun");
        }
        if hits >= 3 && (changes || (reran && s.rerun_at.unwrap_or(0) >= 1) || s.rerun_immediately) {
            ctx.nontrivial(&s);
            ctx.class("nt");
            if reran {
                ctx.class("nt:with-rerun");
            }
            ctx.sample(|| scen_json(&s));
        }
        Ok(())
    });
    // the repository's own test grammar with a re-run at every hit index
    if ctx.shard == 0 {
        let grammar = "alpha = { 'a'..'z' | 'A'..'Z' }\ndigit = { '0'..'9' }\nident = { !digit ~ (alpha | digit)+ }\nident_list = _{ ident ~ (\" \" ~ ident)* }\n";
        for k in 0..4 {
            for bps in [vec!["ident".to_string()], vec!["alpha".to_string(), "ident".to_string()]] {
                let s = Scenario { grammar: grammar.into(), rule: "ident_list".into(), input: "ab c1".into(), breakpoints: bps, script: vec![], rerun_at: if k == 3 { None } else { Some(k) }, rerun_immediately: k == 3, cap: if k == 3 { 2 } else { 1 }, sched_seed: ctx.seed ^ k as u64, schedules, pct: k % 2 == 0, all_rules: rule_names(grammar) };
                match run_scenario(&s) {
                    Ok(_) => ctx.evals_n(schedules as u64),
                    Err(f) => {
                        ctx.report(f);
                    }
                }
            }
        }
    }
}

fn replay(case: &Value) -> Result<(), Fail> {
    run_scenario(&scen_from_json(case)).map(|_| ())
}

const DEF: CheckDef = CheckDef {
    id: "C17",
    rule: "proptest-generated scenarios: small stack-free grammar (<= 4 rules, optional WHITESPACE/COMMENT) x one start rule x one generated input (parse of <= 60 rule calls) x a breakpoint set over the rule names and the built-ins ANY/EOI x a controller script (per hit: nothing / add a breakpoint / delete a breakpoint; optionally a re-run with a fresh channel while stopped at hit #0-3, or an immediate second run before anything is received (capacity 2)) x channel capacity 0-2 (>= 1 when re-running), each executed under 200 (quick) / 2000 (thorough) schedules of shuttle's seeded random or PCT(3) scheduler; the debugger source of the working tree is compiled against a shuttle-backed shim by build.rs. Oracle: the expected event list is computed from a plain Vm::new_with_listener run that records every (rule, position) entry, filtered by the breakpoint set in force; the controller must receive exactly that list, then Eof or the Error text of a plain VM parse; at most 1 + #continues events at any time and none while waiting; a re-run after all delivered events were received returns Ok and the second session again delivers exactly its hits; shuttle reports a deadlock if any explored schedule blocks forever. evaluations = executions (scenario x schedule). Non-trivial = >= 3 hits and (a breakpoint change while stopped, or a re-run while stopped at hit >= 1); distinct = distinct scenario.",
    assumptions: &[
        "park() in the shim returns only after an unpark (models timing, not the spurious wake-ups std permits)",
        "liveness only as deadlock-freedom of the explored schedules; re-runs use channel capacity >= 1 (a rendezvous channel cannot take the previous session's final event while run() joins it)",
    ],
    floor: |t| t.pick(200, 2000),
    shards: |_| 16,
    run,
    replay,
    journal: false,
    pre: None,
};

fn arg_after(args: &[String], flag: &str) -> Option<String> {
    args.iter().position(|a| a == flag).and_then(|i| args.get(i + 1).cloned())
}

fn main() {
    let args: Vec<String> = std::env::args().collect();
    let defs = vec![DEF];
    let tier_of = |s: Option<String>| match s.as_deref() {
        Some("thorough") => Tier::Thorough,
        _ => Tier::Quick,
    };
    match args.get(1).map(|s| s.as_str()) {
        Some("check") => {
            let tier = tier_of(arg_after(&args, "--tier"));
            let seed = arg_after(&args, "--seed").and_then(|s| s.parse::<i64>().ok()).map(|v| v as u64).unwrap_or_else(env_seed);
            std::process::exit(driver_main(&defs[0], tier, seed, arg_after(&args, "--evidence")));
        }
        Some("worker") => {
            let tier = tier_of(arg_after(&args, "--tier"));
            let seed: u64 = arg_after(&args, "--seed").unwrap().parse().unwrap();
            let shard: u64 = arg_after(&args, "--shard").unwrap().parse().unwrap();
            let nshards: u64 = arg_after(&args, "--nshards").unwrap().parse().unwrap();
            let out = arg_after(&args, "--out").unwrap();
            worker_main(&defs[0], tier, seed, shard, nshards, std::path::Path::new(&out));
        }
        Some("replay") => {
            let raw = args.iter().any(|a| a == "--raw");
            std::process::exit(replay_main(&defs, args.get(2).expect("file"), raw));
        }
        _ => std::process::exit(2),
    }
}
