// Emits the table of `pest::unicode::<NAME>` function pointers from the property-name lists in
// /repo/pest/src/unicode/mod.rs (C16). A name that is advertised but has no function is a build
// failure of the harness, reported as such by ./check.
use std::io::Write;
fn main() {
    let src_path = "/repo/pest/src/unicode/mod.rs";
    println!("cargo:rerun-if-changed={src_path}");
    println!("cargo:rerun-if-changed=build.rs");
    let src = std::fs::read_to_string(src_path).expect("read unicode/mod.rs");
    let mut names: Vec<String> = vec![];
    for list in ["BINARY_PROPERTY_NAMES", "CATEGORY_PROPERTY_NAMES", "SCRIPT_PROPERTY_NAMES"] {
        let key = format!("static {list} = [");
        let start = src.find(&key).unwrap_or_else(|| panic!("list {list} not found")) + key.len();
        let end = start + src[start..].find("];").expect("list end");
        let body = &src[start..end];
        // strip line comments
        let body: String = body.lines().map(|l| l.split("//").next().unwrap_or("")).collect::<Vec<_>>().join("\n");
        let mut cur = String::new();
        let mut in_str = false;
        for ch in body.chars() {
            if ch == '"' {
                in_str = !in_str;
                cur.clear();
                continue;
            }
            if in_str {
                continue;
            }
            if ch.is_ascii_uppercase() || ch.is_ascii_digit() || ch == '_' {
                cur.push(ch);
            } else {
                if cur.len() > 1 && cur.chars().next().unwrap().is_ascii_uppercase() {
                    names.push(format!("{list}:{cur}"));
                }
                cur.clear();
            }
        }
    }
    let out = std::path::Path::new(&std::env::var("OUT_DIR").unwrap()).join("unicode_fns.rs");
    let mut f = std::fs::File::create(out).unwrap();
    writeln!(f, "pub static UNICODE_FNS: &[(&str, &str, fn(char) -> bool)] = &[").unwrap();
    for n in &names {
        let (list, name) = n.split_once(':').unwrap();
        writeln!(f, "    (\"{list}\", \"{name}\", pest::unicode::{name} as fn(char) -> bool),").unwrap();
    }
    writeln!(f, "];").unwrap();
}
