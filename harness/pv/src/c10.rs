//! C10 — line/column arithmetic and error rendering are correct for all text.
//! Oracle: direct definitions (count of '\n' before the offset, chars since the last '\n', the
//! '\n'-terminated line containing an offset). Exhaustive over short strings, proptest for long.

use crate::fw::*;
use pest::error::{Error, ErrorVariant, InputLocation, LineColLocation};
use pest::iterators::PairsBuilder;
use pest::{Position, Span};
use proptest::prelude::*;
use serde_json::{json, Value};

const ALPHA: [&str; 6] = ["a", "\n", "\r", "\t", "é", "😀"];

// ---------- oracle ----------
fn o_line_col(s: &str, off: usize) -> (usize, usize) {
    let before = &s[..off];
    let line = 1 + before.bytes().filter(|b| *b == b'\n').count();
    let last = before.rfind('\n').map(|i| i + 1).unwrap_or(0);
    (line, 1 + before[last..].chars().count())
}
/// All lines as [start,end) byte ranges; each ends just after its '\n' (the last one at EOF).
/// A string that ends in '\n' (or is empty) has a final empty line [len,len).
fn o_lines(s: &str) -> Vec<(usize, usize)> {
    let mut out = vec![];
    let mut start = 0;
    for (i, b) in s.bytes().enumerate() {
        if b == b'\n' {
            out.push((start, i + 1));
            start = i + 1;
        }
    }
    out.push((start, s.len()));
    out
}
fn o_line_of(s: &str, off: usize) -> (usize, usize) {
    // the line containing the offset: the '\n' belongs to the line it terminates
    for (a, b) in o_lines(s) {
        if off >= a && (off < b || (a == b) || (off == b && b == s.len() && !s[a..b].ends_with('\n'))) {
            return (a, b);
        }
    }
    unreachable!()
}

fn mk_fail(sig: &str, s: &str, a: usize, b: Option<usize>, msg: String) -> Fail {
    Fail::new(format!("c10:{sig}"), format!("input {s:?} offset {a} {b:?}: {msg}"), json!({"input": s, "a": a, "b": b}))
}

fn strip_ws(l: &str) -> String {
    l.replace(['\r', '\n'], "")
}
fn vis_ws(l: &str) -> String {
    l.replace('\r', "␍").replace('\n', "␊")
}

/// lone CR (not followed by LF) inside the line strictly before the offset: display of a
/// stripped CR is not specified, marker alignment is not asserted there.
fn lone_cr_before(s: &str, line_start: usize, off: usize) -> bool {
    let seg = &s[line_start..off];
    let bytes = s.as_bytes();
    seg.bytes().enumerate().any(|(i, b)| b == b'\r' && bytes.get(line_start + i + 1) != Some(&b'\n'))
}

fn check_pos(ctx: &mut Ctx, s: &str, off: usize) -> Result<(), Fail> {
    ctx.eval();
    let valid = off <= s.len() && s.is_char_boundary(off);
    let p = Position::new(s, off);
    if p.is_some() != valid {
        return Err(mk_fail("position-new", s, off, None, format!("Position::new is_some={} but offset validity={valid}", p.is_some())));
    }
    let Some(p) = p else { return Ok(()) };
    let want = o_line_col(s, off);
    let got = catch(|| p.line_col()).map_err(|e| mk_fail("position-line_col-panic", s, off, None, e))?;
    if got != want {
        return Err(mk_fail("position-line_col", s, off, None, format!("Position::line_col {got:?}, expected {want:?}")));
    }
    let (la, lb) = o_line_of(s, off);
    let got_line = catch(|| p.line_of()).map_err(|e| mk_fail("line_of-panic", s, off, None, e))?;
    if got_line != &s[la..lb] {
        return Err(mk_fail("line_of", s, off, None, format!("line_of {:?}, expected {:?}", got_line, &s[la..lb])));
    }
    let before = &s[..off];
    if before.contains("\r\n") || before.chars().any(|c| c.len_utf8() > 1) {
        ctx.nontrivial(&(s, off));
    }
    // pair line_col: PairsBuilder (full index) and a real state run (prefix-only index)
    let nchars = before.chars().count();
    let r = catch(|| {
        let pairs = PairsBuilder::<u8>::new(s).rule(7u8, off, off).build();
        let a = pairs.peek().unwrap().line_col();
        let pr = pest::state::<u8, _>(s, |st| st.skip(nchars).and_then(|st| st.rule(7u8, |st| Ok(st))));
        let b = pr.ok().and_then(|mut ps| ps.next()).map(|p| p.line_col());
        // a pair that ends later in the input (index covers more than the offset)
        let pr2 = pest::state::<u8, _>(s, |st| st.skip(nchars).and_then(|st| st.rule(7u8, |st| st.skip_until(&["\u{1}"]))));
        let c = pr2.ok().and_then(|mut ps| ps.next()).map(|p| (p.line_col(), p.as_span().end()));
        (a, b, c)
    })
    .map_err(|e| mk_fail("pair-line_col-panic", s, off, None, e))?;
    if r.0 != want {
        return Err(mk_fail("pair-line_col-builder", s, off, None, format!("PairsBuilder pair line_col {:?}, expected {want:?}", r.0)));
    }
    if r.1 != Some(want) {
        return Err(mk_fail("pair-line_col-state", s, off, None, format!("parsed pair line_col {:?}, expected {want:?}", r.1)));
    }
    match r.2 {
        Some((lc, end)) if lc == want && end == s.len() => {}
        other => return Err(mk_fail("pair-line_col-state2", s, off, None, format!("parsed pair (to end of input) line_col/end {other:?}, expected {want:?}/{}", s.len()))),
    }
    // error from position
    let e: Error<u8> = catch(|| Error::new_from_pos(ErrorVariant::CustomError { message: "m".into() }, p))
        .map_err(|e| mk_fail("error-pos-panic", s, off, None, e))?;
    if e.location != InputLocation::Pos(off) || e.line_col != LineColLocation::Pos(want) {
        return Err(mk_fail("error-pos-location", s, off, None, format!("error location {:?} line_col {:?}, expected Pos({off}) / {want:?}", e.location, e.line_col)));
    }
    let text = catch(|| format!("{e}")).map_err(|e| mk_fail("error-pos-render-panic", s, off, None, e))?;
    let rows: Vec<&str> = text.split('\n').collect();
    let (l, c) = want;
    let width = l.to_string().len();
    let pad = " ".repeat(width);
    if rows.first().copied() != Some(format!("{pad}--> {l}:{c}").as_str()) {
        return Err(mk_fail("error-pos-header", s, off, None, format!("first row {:?}, expected {:?}", rows.first(), format!("{pad}--> {l}:{c}"))));
    }
    let line = &s[la..lb];
    let shown_a = format!("{l} | {}", strip_ws(line));
    let shown_b = format!("{l} | {}", vis_ws(line));
    let row = rows.get(2).copied().unwrap_or("");
    if row != shown_a && row != shown_b {
        return Err(mk_fail("error-pos-line-text", s, off, None, format!("line row {row:?}, expected {shown_a:?} or {shown_b:?}")));
    }
    if lone_cr_before(s, la, off) {
        ctx.excluded += 1;
    } else {
        let marker = rows.get(3).copied().unwrap_or("");
        let prefix = format!("{pad} | ");
        let Some(m) = marker.strip_prefix(prefix.as_str()) else {
            return Err(mk_fail("error-pos-marker", s, off, None, format!("marker row {marker:?} lacks gutter")));
        };
        let expect: String = s[la..off].chars().map(|ch| if ch == '\t' { '\t' } else { ' ' }).collect::<String>() + "^";
        if !m.starts_with(expect.as_str()) || m[..expect.len() - 1].contains('^') {
            return Err(mk_fail("error-pos-marker", s, off, None, format!("marker row {m:?}, expected it to start with {expect:?} (marker under column {c})")));
        }
    }
    Ok(())
}

fn check_span(ctx: &mut Ctx, s: &str, a: usize, b: usize) -> Result<(), Fail> {
    ctx.eval();
    let ok = |o: usize| o <= s.len() && s.is_char_boundary(o);
    let valid = ok(a) && ok(b) && a <= b;
    let sp = Span::new(s, a, b);
    if sp.is_some() != valid {
        return Err(mk_fail("span-new", s, a, Some(b), format!("Span::new is_some={} but validity={valid}", sp.is_some())));
    }
    let Some(sp) = sp else { return Ok(()) };
    if sp.start() != a || sp.end() != b || sp.as_str() != &s[a..b] {
        return Err(mk_fail("span-accessors", s, a, Some(b), "start/end/as_str disagree".into()));
    }
    // lines overlapping the span
    let all = o_lines(s);
    let want: Vec<(usize, usize)> = if a < b {
        all.iter().copied().filter(|(ls, le)| *ls < b && *le > a).collect()
    } else {
        vec![]
    };
    let got: Vec<(usize, usize)> = catch(|| sp.lines_span().map(|x| (x.start(), x.end())).collect())
        .map_err(|e| mk_fail("lines_span-panic", s, a, Some(b), e))?;
    let got_str: Vec<&str> = catch(|| sp.lines().collect()).map_err(|e| mk_fail("lines-panic", s, a, Some(b), e))?;
    if got_str != got.iter().map(|(x, y)| &s[*x..*y]).collect::<Vec<_>>() {
        return Err(mk_fail("lines-vs-lines_span", s, a, Some(b), format!("lines() {got_str:?} differs from lines_span() {got:?}")));
    }
    if a < b {
        if got != want {
            return Err(mk_fail("lines", s, a, Some(b), format!("lines_span() {got:?}, expected the lines overlapping [{a},{b}): {want:?}")));
        }
        if want.len() >= 2 {
            ctx.nontrivial(&(s, a, b));
        }
    } else {
        // empty span: nothing, or the containing line
        let cont = o_line_of(s, a);
        if !(got.is_empty() || got == vec![cont]) {
            return Err(mk_fail("lines-empty-span", s, a, Some(b), format!("lines_span() of an empty span {got:?}, expected [] or [{cont:?}]")));
        }
    }
    // error from span
    let e: Error<u8> = catch(|| Error::new_from_span(ErrorVariant::CustomError { message: "m".into() }, sp))
        .map_err(|e| mk_fail("error-span-panic", s, a, Some(b), e))?;
    let (sl, sc) = o_line_col(s, a);
    let end_lc = o_line_col(s, b);
    let (got_start, got_end) = match e.line_col {
        LineColLocation::Span(x, y) => (x, y),
        _ => return Err(mk_fail("error-span-location", s, a, Some(b), "line_col is not Span".into())),
    };
    if e.location != InputLocation::Span((a, b)) || got_start != (sl, sc) {
        return Err(mk_fail("error-span-location", s, a, Some(b), format!("location {:?} start {:?}, expected Span(({a},{b})) / {:?}", e.location, got_start, (sl, sc))));
    }
    if end_lc.1 != 1 {
        if got_end != end_lc {
            return Err(mk_fail("error-span-end", s, a, Some(b), format!("end line_col {got_end:?}, expected {end_lc:?}")));
        }
    } else if b > 0 {
        // documented adjustment: an end right after a newline points at the visual LF symbol
        let prev = s[..b].char_indices().next_back().unwrap().0;
        let plc = o_line_col(s, prev);
        if got_end != end_lc && got_end != (plc.0, plc.1 + 1) {
            return Err(mk_fail("error-span-end", s, a, Some(b), format!("end line_col {got_end:?}, expected {end_lc:?} or {:?}", (plc.0, plc.1 + 1))));
        }
    }
    let text = catch(|| format!("{e}")).map_err(|e| mk_fail("error-span-render-panic", s, a, Some(b), e))?;
    let rows: Vec<&str> = text.split('\n').collect();
    let header = rows.first().copied().unwrap_or("");
    if header.trim_start() != format!("--> {sl}:{sc}") {
        return Err(mk_fail("error-span-header", s, a, Some(b), format!("first row {header:?}, expected --> {sl}:{sc}")));
    }
    // all gutter bars of the rendering are in one column (otherwise neither the line text nor the
    // marker is under the column the header reports)
    let bars: Vec<usize> = rows.iter().skip(1).filter_map(|r| r.find(" |").map(|i| r[..i + 2].chars().count())).collect();
    if bars.windows(2).any(|w| w[0] != w[1]) {
        return Err(mk_fail("error-span-gutter", s, a, Some(b), format!("the `|` gutter is not aligned across rows: {rows:?}")));
    }
    // every numbered row must carry a line number of a line the span overlaps (or touches)
    let last_line = got_end.0.max(sl);
    for r in rows.iter().skip(1) {
        if let Some((num, _)) = r.split_once(" | ") {
            let t = num.trim();
            if !t.is_empty() {
                if let Ok(n) = t.parse::<usize>() {
                    if n < sl || n > last_line {
                        return Err(mk_fail("error-span-row-number", s, a, Some(b), format!("row {r:?} numbered {n}, outside {sl}..={last_line}")));
                    }
                }
            }
        }
    }
    {
        // strict: the start line row shows the text of the line containing the start offset
        // (also for an empty span: the error is *at* that offset)
        let (la, lb) = o_line_of(s, a);
        let line = &s[la..lb];
        let row = rows.get(2).copied().unwrap_or("");
        let w = row.find(" | ").unwrap_or(0);
        let exp_a = format!("{:>w$} | {}", sl, strip_ws(line), w = w);
        let exp_b = format!("{:>w$} | {}", sl, vis_ws(line), w = w);
        if row != exp_a && row != exp_b {
            return Err(mk_fail("error-span-line-text", s, a, Some(b), format!("line row {row:?}, expected {exp_a:?} or {exp_b:?}")));
        }
        // the span's last line (if different) must be shown under ITS number when a second numbered row exists
        let numbered: Vec<(usize, &str)> = rows
            .iter()
            .skip(1)
            .filter_map(|r| r.split_once(" | ").and_then(|(n, t)| n.trim().parse::<usize>().ok().map(|n| (n, t))))
            .collect();
        if numbered.len() >= 2 {
            let (n2, t2) = numbered[numbered.len() - 1];
            let ln = o_lines(s);
            let (xa, xb) = ln[n2 - 1];
            let lt = &s[xa..xb];
            let t2 = t2.trim_end_matches('\n');
            if t2 != strip_ws(lt) && t2 != vis_ws(lt) && t2 != lt.trim_end_matches('\n') {
                return Err(mk_fail("error-span-continued-line", s, a, Some(b), format!("row numbered {n2} shows {t2:?}, but line {n2} is {lt:?}")));
            }
        }
        // single-line span: first marker under the start column
        let single = want.len() == 1;
        if single && !lone_cr_before(s, la, a) && sc <= got_end.1 {
            if let Some(mrow) = rows.get(3) {
                if let Some((_, m)) = mrow.split_once(" | ") {
                    let expect: String = s[la..a].chars().map(|ch| if ch == '\t' { '\t' } else { ' ' }).collect::<String>() + "^";
                    if !m.starts_with(expect.as_str()) {
                        return Err(mk_fail("error-span-marker", s, a, Some(b), format!("marker row {m:?}, expected it to start with {expect:?}")));
                    }
                }
            }
        }
    }
    Ok(())
}

fn check_string(ctx: &mut Ctx, s: &str, all_pairs: bool) -> Result<(), Fail> {
    for off in 0..=s.len() + 1 {
        check_pos(ctx, s, off)?;
    }
    if all_pairs {
        for a in 0..=s.len() + 1 {
            for b in 0..=s.len() + 1 {
                if a > b && (a + b) % 3 != 0 {
                    continue; // inverted pairs: a third of them is enough to test rejection
                }
                check_span(ctx, s, a, b)?;
            }
        }
    }
    Ok(())
}

fn nth_string(mut idx: u64, len: usize) -> String {
    let mut s = String::new();
    for _ in 0..len {
        s.push_str(ALPHA[(idx % 6) as usize]);
        idx /= 6;
    }
    s
}

pub fn run(ctx: &mut Ctx) {
    let k: usize = ctx.tier.pick(6, 8);
    let mut stop = false;
    'outer: for len in 0..=k {
        let n = 6u64.pow(len as u32);
        for idx in 0..n {
            if idx % ctx.nshards != ctx.shard {
                continue;
            }
            let s = nth_string(idx, len);
            if idx % 997 == 0 {
                ctx.sample(|| json!({"input": s, "mode": "exhaustive: all offsets and offset pairs"}));
            }
            if let Err(f) = check_string(ctx, &s, true) {
                if ctx.report(f) {
                    stop = true;
                    break 'outer;
                }
            }
        }
    }
    ctx.exhaustive = !stop;
    ctx.class_n(&format!("exhaustive_symbols<={k}"), 1);

    // random long strings over a wider alphabet
    let cases = ctx.share(ctx.tier.pick(60_000, 2_000_000));
    let sym = prop_oneof![
        6 => "[a-z ]{1,6}",
        3 => Just("\n".to_string()),
        2 => Just("\r\n".to_string()),
        1 => Just("\r".to_string()),
        1 => Just("\t".to_string()),
        1 => Just("é".to_string()),
        1 => Just("€😀".to_string()),
        1 => Just("\u{2028}".to_string()),
    ];
    let strat = (proptest::collection::vec(sym, 0..40), 0usize..14, any::<u16>(), any::<u16>()).prop_map(|(v, pre, x, y)| {
        // a prefix of short lines makes line numbers cross 9 -> 10 regularly
        let mut s: String = (0..pre).map(|i| if i % 3 == 0 { "x\n" } else { "\n" }).collect();
        s.push_str(&v.concat());
        (s, x, y)
    });
    ctx.run_prop(cases, 1, strat, |ctx, (s, x, y)| {
        let a = (*x as usize * (s.len() + 2)) >> 16;
        let b = (*y as usize * (s.len() + 2)) >> 16;
        ctx.sample(|| json!({"input": s, "a": a, "b": b, "mode": "random"}));
        check_pos(ctx, s, a)?;
        check_pos(ctx, s, b)?;
        check_span(ctx, s, a.min(b), a.max(b))?;
        check_span(ctx, s, a, b)
    });
}

pub fn replay(case: &Value) -> Result<(), Fail> {
    let s = case["input"].as_str().expect("input");
    let a = case["a"].as_u64().expect("a") as usize;
    let mut ctx = Ctx::new("C10", Tier::Quick, 0, 0, 1);
    match case["b"].as_u64() {
        None => check_pos(&mut ctx, s, a),
        Some(b) => check_span(&mut ctx, s, a, b as usize),
    }
}

pub const DEF: CheckDef = CheckDef {
    id: "C10",
    rule: "All strings of <=k symbols (k=6 quick, 8 thorough) over {a, LF, CR, TAB, é, 😀} x every byte offset 0..=len+1 and every offset pair (all ordered pairs, a third of the inverted ones), plus proptest strings (<=40 chunks incl. CRLF, lone CR, tabs, multi-byte, U+2028) with two scaled offsets. Oracle: direct definitions (line = 1 + LFs before the offset, column = 1 + chars since the last LF, containing line, lines overlapping a non-empty span) compared with Position::new/line_col/line_of, Span::new/lines/lines_span, Pair::line_col (PairsBuilder and two real pest::state runs), Error::new_from_pos/new_from_span fields and the rendered text (header L:C, line row text, marker column, row numbers). Non-trivial = CRLF or a multi-byte char before the offset, or a span overlapping >=2 lines; distinct = distinct (string, offsets).",
    assumptions: &[
        "marker alignment is not asserted when a lone CR (not followed by LF) precedes the offset on its line: the renderer strips it from the shown text and the prose does not say how it is displayed (counted under excluded_by_construction)",
        "lines()/lines_span() of an EMPTY span may be nothing or the containing line; span-error end column may be the exact one or the documented 'visual LF' adjustment",
    ],
    floor: |t| t.pick(1000, 10000),
    shards: |_| 16,
    run,
    replay,
    journal: false,
    pre: None,
};
