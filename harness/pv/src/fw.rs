//! Framework shared by every property check: seeds, proptest runners, counters, evidence,
//! shard driver (worker processes), known-findings handling and replay files.

use proptest::strategy::{Strategy, ValueTree};
use proptest::test_runner::{Config, RngAlgorithm, TestCaseError, TestError, TestRng, TestRunner};
use serde_json::{json, Map, Value};
use std::collections::{BTreeMap, BTreeSet, HashSet};
use std::hash::{Hash, Hasher};
use std::io::Write;
use std::path::{Path, PathBuf};
use std::time::Instant;

pub const VERIF: &str = "/verif";

#[derive(Clone, Copy, Debug, PartialEq, Eq)]
pub enum Tier {
    Quick,
    Thorough,
}

impl Tier {
    pub fn name(self) -> &'static str {
        match self {
            Tier::Quick => "quick",
            Tier::Thorough => "thorough",
        }
    }
    pub fn pick<T>(self, quick: T, thorough: T) -> T {
        match self {
            Tier::Quick => quick,
            Tier::Thorough => thorough,
        }
    }
}

/// A failed case: `sig` identifies the failing call site / rewrite (used for known findings),
/// `case` is the replayable JSON, `msg` says expected vs observed.
#[derive(Clone, Debug)]
pub struct Fail {
    pub sig: String,
    pub msg: String,
    pub case: Value,
}

impl Fail {
    pub fn new(sig: impl Into<String>, msg: impl Into<String>, case: Value) -> Fail {
        Fail {
            sig: sig.into(),
            msg: msg.into(),
            case,
        }
    }
}

pub fn splitmix(mut x: u64) -> u64 {
    x = x.wrapping_add(0x9E37_79B9_7F4A_7C15);
    let mut z = x;
    z = (z ^ (z >> 30)).wrapping_mul(0xBF58_476D_1CE4_E5B9);
    z = (z ^ (z >> 27)).wrapping_mul(0x94D0_49BB_1331_11EB);
    z ^ (z >> 31)
}

pub fn hash_of<T: Hash + ?Sized>(t: &T) -> u64 {
    // FNV-style deterministic hasher (std's DefaultHasher is deterministic too, but keep it explicit)
    struct H(u64);
    impl Hasher for H {
        fn finish(&self) -> u64 {
            self.0
        }
        fn write(&mut self, bytes: &[u8]) {
            for b in bytes {
                self.0 ^= *b as u64;
                self.0 = self.0.wrapping_mul(0x100_0000_01b3);
            }
        }
    }
    let mut h = H(0xcbf2_9ce4_8422_2325);
    t.hash(&mut h);
    splitmix(h.finish())
}

#[derive(Clone, Debug)]
pub struct KnownFinding {
    pub property: String,
    pub id: String,
    pub status: String, // open | fixed
    pub signature: String,
    pub witness: Option<String>,
    pub what: String,
}

pub fn load_known() -> Vec<KnownFinding> {
    let p = format!("{VERIF}/known_findings.json");
    let Ok(text) = std::fs::read_to_string(&p) else {
        return vec![];
    };
    let v: Value = serde_json::from_str(&text).expect("known_findings.json must be valid JSON");
    let mut out = vec![];
    for e in v["findings"].as_array().cloned().unwrap_or_default() {
        out.push(KnownFinding {
            property: e["property"].as_str().unwrap_or("").to_string(),
            id: e["id"].as_str().unwrap_or("").to_string(),
            status: e["status"].as_str().unwrap_or("open").to_string(),
            signature: e["signature"].as_str().unwrap_or("").to_string(),
            witness: e["witness"].as_str().map(|s| s.to_string()),
            what: e["what"].as_str().unwrap_or("").to_string(),
        });
    }
    out
}

/// Per-shard context: counters and collected results.
pub struct Ctx {
    pub prop: String,
    pub tier: Tier,
    pub seed: u64,
    pub shard: u64,
    pub nshards: u64,
    pub evals: u64,
    nontrivial: HashSet<u64>,
    samples: Vec<Value>,
    sample_seen: u64,
    pub classes: BTreeMap<String, u64>,
    pub excluded: u64,
    pub violations: Vec<Fail>,
    pub known_hits: BTreeMap<String, u64>,
    pub open_sigs: BTreeSet<String>,
    pub exhaustive: bool,
    pub notes: Vec<String>,
    pub counting: bool,
    journal: Option<std::fs::File>,
    pub max_violations: usize,
    pub max_shrink_iters: u32,
}

impl Ctx {
    pub fn new(prop: &str, tier: Tier, seed: u64, shard: u64, nshards: u64) -> Ctx {
        let open_sigs = load_known()
            .into_iter()
            .filter(|k| k.property == prop && k.status == "open")
            .map(|k| k.signature)
            .collect();
        Ctx {
            prop: prop.to_string(),
            tier,
            seed,
            shard,
            nshards,
            evals: 0,
            nontrivial: HashSet::new(),
            samples: vec![],
            sample_seen: 0,
            classes: BTreeMap::new(),
            excluded: 0,
            violations: vec![],
            known_hits: BTreeMap::new(),
            open_sigs,
            exhaustive: false,
            notes: vec![],
            counting: true,
            journal: None,
            max_violations: 3,
            max_shrink_iters: 20_000,
        }
    }

    /// A context that does not read known_findings.json (for fuzz targets: one per execution).
    pub fn bare(prop: &str) -> Ctx {
        Ctx {
            prop: prop.to_string(),
            tier: Tier::Quick,
            seed: 0,
            shard: 0,
            nshards: 1,
            evals: 0,
            nontrivial: HashSet::new(),
            samples: vec![],
            sample_seen: 0,
            classes: BTreeMap::new(),
            excluded: 0,
            violations: vec![],
            known_hits: BTreeMap::new(),
            open_sigs: BTreeSet::new(),
            exhaustive: false,
            notes: vec![],
            counting: false,
            journal: None,
            max_violations: 3,
            max_shrink_iters: 0,
        }
    }

    pub fn set_journal(&mut self, path: &Path) {
        self.journal = std::fs::OpenOptions::new()
            .create(true)
            .write(true)
            .truncate(true)
            .open(path)
            .ok();
    }

    /// Record the case about to run, so a crash of this process can be attributed.
    pub fn inflight(&mut self, case: &Value) {
        use std::os::unix::fs::FileExt;
        if let Some(f) = &self.journal {
            let s = case.to_string();
            let mut buf = Vec::with_capacity(s.len() + 16);
            buf.extend_from_slice(format!("{:012}\n", s.len()).as_bytes());
            buf.extend_from_slice(s.as_bytes());
            let _ = f.write_at(&buf, 0);
        }
    }

    pub fn eval(&mut self) {
        if self.counting {
            self.evals += 1;
        }
    }
    pub fn evals_n(&mut self, n: u64) {
        if self.counting {
            self.evals += n;
        }
    }
    pub fn nontrivial<T: Hash + ?Sized>(&mut self, key: &T) {
        if self.counting {
            self.nontrivial.insert(hash_of(key));
        }
    }
    pub fn nontrivial_count(&self) -> usize {
        self.nontrivial.len()
    }
    pub fn class(&mut self, name: &str) {
        if self.counting {
            *self.classes.entry(name.to_string()).or_insert(0) += 1;
        }
    }
    pub fn class_n(&mut self, name: &str, n: u64) {
        if self.counting {
            *self.classes.entry(name.to_string()).or_insert(0) += n;
        }
    }
    /// Keep a few samples: the first 3 and then a deterministic thinning.
    pub fn sample(&mut self, f: impl FnOnce() -> Value) {
        if !self.counting {
            return;
        }
        self.sample_seen += 1;
        let n = self.sample_seen;
        if self.samples.len() < 3 {
            self.samples.push(f());
        } else if n.is_power_of_two() && self.samples.len() < 10 {
            self.samples.push(f());
        }
    }

    pub fn is_known(&self, sig: &str) -> bool {
        self.open_sigs.contains(sig)
    }

    /// Report a failure found outside proptest (exhaustive enumeration etc.).
    /// Returns true if the search should stop.
    pub fn report(&mut self, f: Fail) -> bool {
        if self.is_known(&f.sig) {
            *self.known_hits.entry(f.sig.clone()).or_insert(0) += 1;
            return false;
        }
        if !self.violations.iter().any(|v| v.sig == f.sig) {
            self.violations.push(f);
        }
        self.violations.len() >= self.max_violations
    }

    pub fn stream_seed(&self, stream: u64) -> [u8; 32] {
        let mut out = [0u8; 32];
        let mut x = splitmix(self.seed ^ 0xA5A5_0000)
            ^ splitmix(self.shard.wrapping_mul(0x1000_0001).wrapping_add(stream << 20));
        x ^= hash_of(self.prop.as_str());
        for i in 0..4 {
            x = splitmix(x);
            out[i * 8..i * 8 + 8].copy_from_slice(&x.to_le_bytes());
        }
        out
    }

    pub fn runner(&self, cases: u32, stream: u64) -> TestRunner {
        let mut cfg = Config::default();
        cfg.cases = cases;
        cfg.failure_persistence = None;
        cfg.max_shrink_iters = self.max_shrink_iters;
        cfg.max_global_rejects = 1_000_000;
        cfg.max_local_rejects = 1_000_000;
        cfg.verbose = 0;
        TestRunner::new_with_rng(
            cfg,
            TestRng::from_seed(RngAlgorithm::ChaCha, &self.stream_seed(stream)),
        )
    }

    /// Share of `total` cases for this shard.
    pub fn share(&self, total: u64) -> u32 {
        let base = total / self.nshards;
        let extra = if self.shard < total % self.nshards { 1 } else { 0 };
        (base + extra).max(1) as u32
    }

    /// Run a proptest-driven property. `f` returns `Err(Fail)` on a violation. Known (open)
    /// findings are counted and do not stop the search. On an unknown failure proptest shrinks it
    /// and the shrunk case is recorded.
    pub fn run_prop<S, F>(&mut self, cases: u32, stream: u64, strat: S, mut f: F)
    where
        S: Strategy,
        F: FnMut(&mut Ctx, &S::Value) -> Result<(), Fail>,
    {
        if self.violations.len() >= self.max_violations {
            return;
        }
        let mut runner = self.runner(cases, stream);
        let mut last_fail: Option<Fail> = None;
        let res = {
            let cell = std::cell::RefCell::new((&mut *self, &mut f, &mut last_fail));
            runner.run(&strat, |v| {
                let mut g = cell.borrow_mut();
                let (this, f, lf) = &mut *g;
                match f(this, &v) {
                    Ok(()) => Ok(()),
                    Err(fail) => {
                        if this.is_known(&fail.sig) {
                            if this.counting {
                                *this.known_hits.entry(fail.sig.clone()).or_insert(0) += 1;
                            }
                            Ok(())
                        } else {
                            // stop counting: proptest re-runs the closure while shrinking
                            this.counting = false;
                            let m = fail.msg.clone();
                            **lf = Some(fail);
                            Err(TestCaseError::fail(m))
                        }
                    }
                }
            })
        };
        self.counting = true;
        match res {
            Ok(()) => {}
            Err(TestError::Fail(_, minimal)) => {
                // re-run on the minimal value to get its Fail record
                self.counting = false;
                let fail = match f(self, &minimal) {
                    Err(fl) if !self.is_known(&fl.sig) => fl,
                    _ => last_fail.expect("failure recorded"),
                };
                self.counting = true;
                if !self.violations.iter().any(|v| v.sig == fail.sig) {
                    self.violations.push(fail);
                }
            }
            Err(TestError::Abort(reason)) => {
                self.notes.push(format!("proptest aborted: {reason}"));
            }
        }
    }

    pub fn to_json(&self, wall: f64) -> Value {
        json!({
            "prop": self.prop, "shard": self.shard, "evals": self.evals,
            "nontrivial": self.nontrivial.iter().copied().collect::<Vec<u64>>(),
            "samples": self.samples, "classes": self.classes, "excluded": self.excluded,
            "violations": self.violations.iter().map(|f| json!({"sig": f.sig, "msg": f.msg, "case": f.case})).collect::<Vec<_>>(),
            "known_hits": self.known_hits, "exhaustive": self.exhaustive, "notes": self.notes, "wall": wall,
        })
    }
}

/// Generate one value from a strategy with a runner (for enumerations that need seeded values).
pub fn gen_one<S: Strategy>(runner: &mut TestRunner, s: &S) -> S::Value {
    s.new_tree(runner).expect("strategy").current()
}

/// Description of a check.
pub struct CheckDef {
    pub id: &'static str,
    pub rule: &'static str,
    pub assumptions: &'static [&'static str],
    /// minimum number of distinct non-trivial cases below which the run is inconclusive (exit 2)
    pub floor: fn(Tier) -> u64,
    pub shards: fn(Tier) -> u64,
    pub run: fn(&mut Ctx),
    /// strict re-execution of a saved case; Err(message) if the property fails on it
    pub replay: fn(&Value) -> Result<(), Fail>,
    pub journal: bool,
    /// optional hook run once in the driver before the shards (e.g. build steps); Err => exit 2
    pub pre: Option<fn(Tier, u64) -> Result<(), String>>,
}

pub fn env_seed() -> u64 {
    std::env::var("VERIF_SEED")
        .ok()
        .and_then(|s| s.trim().parse::<i64>().ok())
        .map(|v| v as u64)
        .unwrap_or(1)
}

fn run_dir(id: &str) -> PathBuf {
    let d = PathBuf::from(format!("{VERIF}/work/runs/{id}-{}", std::process::id()));
    let _ = std::fs::create_dir_all(&d);
    d
}

pub fn worker_main(def: &CheckDef, tier: Tier, seed: u64, shard: u64, nshards: u64, out: &Path) {
    let t0 = Instant::now();
    let mut ctx = Ctx::new(def.id, tier, seed, shard, nshards);
    if def.journal {
        ctx.set_journal(&out.with_extension("journal"));
    }
    // quiet panic output: checks catch panics of the code under test themselves
    std::panic::set_hook(Box::new(|_| {}));
    // run on a big stack so that only genuine unbounded recursion overflows
    let def_run = def.run;
    let ctx = std::thread::Builder::new()
        .stack_size(1 << 30)
        .spawn(move || {
            def_run(&mut ctx);
            ctx
        })
        .expect("spawn")
        .join();
    let ctx = match ctx {
        Ok(c) => c,
        Err(e) => {
            let msg = e
                .downcast_ref::<String>()
                .cloned()
                .or_else(|| e.downcast_ref::<&str>().map(|s| s.to_string()))
                .unwrap_or_default();
            eprintln!("worker {shard}: harness panic: {msg}");
            std::process::exit(3);
        }
    };
    let v = ctx.to_json(t0.elapsed().as_secs_f64());
    let tmp = out.with_extension("tmp");
    std::fs::write(&tmp, v.to_string()).expect("write shard result");
    std::fs::rename(&tmp, out).expect("rename shard result");
}

pub struct Outcome {
    pub exit: i32,
}

fn write_replay(id: &str, f: &Fail) -> String {
    let dir = format!("{VERIF}/replays/{id}");
    let _ = std::fs::create_dir_all(&dir);
    let body = json!({"property": id, "signature": f.sig, "message": f.msg, "case": f.case});
    let h = hash_of(body.to_string().as_str());
    let path = format!("{dir}/found-{:016x}.json", h);
    let _ = std::fs::write(&path, serde_json::to_string_pretty(&body).unwrap());
    path
}

fn read_journal(p: &Path) -> Option<Value> {
    let data = std::fs::read(p).ok()?;
    if data.len() < 13 {
        return None;
    }
    let n: usize = std::str::from_utf8(&data[..12]).ok()?.trim().parse().ok()?;
    let body = data.get(13..13 + n)?;
    serde_json::from_slice(body).ok()
}

/// Strict replay in a child process (so that a crash is observed, not suffered).
pub fn replay_in_child(id: &str, case: &Value) -> Result<(), Fail> {
    let dir = run_dir(id);
    let p = dir.join(format!("replay-{:016x}.json", hash_of(case.to_string().as_str())));
    std::fs::write(&p, json!({"property": id, "case": case}).to_string()).unwrap();
    let exe = std::env::current_exe().unwrap();
    let out = std::process::Command::new(exe)
        .arg("replay")
        .arg(&p)
        .arg("--raw")
        .output()
        .expect("spawn replay child");
    let stdout = String::from_utf8_lossy(&out.stdout).to_string();
    let _ = std::fs::remove_file(&p);
    if out.status.success() {
        return Ok(());
    }
    if let Some(line) = stdout.lines().find(|l| l.starts_with("REPLAY-FAIL ")) {
        let v: Value = serde_json::from_str(&line["REPLAY-FAIL ".len()..]).unwrap_or(Value::Null);
        return Err(Fail::new(
            v["sig"].as_str().unwrap_or("unknown"),
            v["msg"].as_str().unwrap_or(""),
            case.clone(),
        ));
    }
    use std::os::unix::process::ExitStatusExt;
    let how = match out.status.signal() {
        Some(s) => format!("killed by signal {s}"),
        None => format!("exit status {:?}", out.status.code()),
    };
    Err(Fail::new(
        "process-crash",
        format!("replaying the case crashed the process ({how}): the code under test aborted or overflowed the stack"),
        case.clone(),
    ))
}

pub fn driver_main(def: &CheckDef, tier: Tier, seed: u64, evidence_out: Option<String>) -> i32 {
    let t0 = Instant::now();
    let id = def.id;
    let known: Vec<KnownFinding> = load_known().into_iter().filter(|k| k.property == id).collect();
    let mut exit = 0;
    let mut violations_n = 0;
    let mut known_lines: BTreeSet<String> = BTreeSet::new();
    let mut notes: Vec<String> = vec![];

    if let Some(pre) = def.pre {
        if let Err(e) = pre(tier, seed) {
            eprintln!("INCONCLUSIVE property={id}: {e}");
            return 2;
        }
    }

    // ---- replay tier: witnesses of known/fixed findings and committed regression cases
    let mut replayed = 0u64;
    let mut replay_files: Vec<(PathBuf, Option<KnownFinding>)> = vec![];
    for k in &known {
        if let Some(w) = &k.witness {
            replay_files.push((PathBuf::from(format!("{VERIF}/{w}")), Some(k.clone())));
        }
    }
    if let Ok(rd) = std::fs::read_dir(format!("{VERIF}/replays/{id}")) {
        let mut v: Vec<PathBuf> = rd
            .filter_map(|e| e.ok().map(|e| e.path()))
            .filter(|p| {
                p.file_name()
                    .and_then(|n| n.to_str())
                    .map(|n| n.starts_with("regress-") && n.ends_with(".json"))
                    .unwrap_or(false)
            })
            .collect();
        v.sort();
        for p in v {
            if !replay_files.iter().any(|(q, _)| *q == p) {
                replay_files.push((p, None));
            }
        }
    }
    for (path, k) in &replay_files {
        let Ok(text) = std::fs::read_to_string(path) else {
            eprintln!("INCONCLUSIVE property={id}: witness {} unreadable", path.display());
            exit = exit.max(2);
            continue;
        };
        let v: Value = serde_json::from_str(&text).unwrap_or(Value::Null);
        // a witness recorded for the other feature configuration is replayed by that run
        #[allow(unexpected_cfgs)]
        let this_cfg = if cfg!(feature = "extras") { "extras" } else { "default" };
        if let Some(c) = v["case"]["config"].as_str() {
            if c != this_cfg {
                continue;
            }
        }
        replayed += 1;
        let res = replay_in_child(id, &v["case"]);
        match (res, k) {
            (Ok(()), Some(k)) if k.status == "open" => {
                notes.push(format!("open finding {} no longer reproduces on its witness", k.id));
                println!("NOTE: property={id} open finding {} no longer reproduces on its witness", k.id);
            }
            (Ok(()), _) => {}
            (Err(f), Some(k)) if k.status == "open" && f.sig == k.signature => {
                known_lines.insert(format!("KNOWN-FINDING: property={id} {} [{}] {}", k.id, k.signature, k.what));
            }
            (Err(f), _) => {
                println!("VIOLATION property={id} replay={}", path.display());
                println!("  signature: {}\n  {}", f.sig, f.msg);
                violations_n += 1;
                exit = 1;
            }
        }
    }

    // ---- search tier
    let nshards = (def.shards)(tier).max(1);
    let dir = run_dir(id);
    let exe = std::env::current_exe().unwrap();
    let mut children = vec![];
    for s in 0..nshards {
        let out = dir.join(format!("shard-{s}.json"));
        let child = std::process::Command::new(&exe)
            .args([
                "worker",
                id,
                "--tier",
                tier.name(),
                "--seed",
                &seed.to_string(),
                "--shard",
                &s.to_string(),
                "--nshards",
                &nshards.to_string(),
                "--out",
            ])
            .arg(&out)
            .spawn()
            .expect("spawn worker");
        children.push((s, out, child));
    }
    let budget_s: u64 = std::env::var("VERIF_WATCHDOG_S")
        .ok()
        .and_then(|s| s.parse().ok())
        .unwrap_or(tier.pick(3600, 6 * 3600));
    let mut merged_evals = 0u64;
    let mut merged_nt: HashSet<u64> = HashSet::new();
    let mut samples: Vec<Value> = vec![];
    let mut classes: BTreeMap<String, u64> = BTreeMap::new();
    let mut excluded = 0u64;
    let mut exhaustive = true;
    let mut fails: Vec<Fail> = vec![];
    let mut known_hits: BTreeMap<String, u64> = BTreeMap::new();
    for (s, out, mut child) in children {
        let status = loop {
            match child.try_wait() {
                Ok(Some(st)) => break Some(st),
                Ok(None) => {
                    if t0.elapsed().as_secs() > budget_s {
                        let _ = child.kill();
                        let _ = child.wait();
                        break None;
                    }
                    std::thread::sleep(std::time::Duration::from_millis(20));
                }
                Err(_) => break None,
            }
        };
        let Some(status) = status else {
            eprintln!("INCONCLUSIVE property={id}: shard {s} exceeded the watchdog ({budget_s}s) and was killed");
            // name the case it was working on (journaled checks), so that a slow class can be looked at
            if let Ok(j) = std::fs::read(out.with_extension("journal")) {
                let t = String::from_utf8_lossy(&j);
                let first = t.split("\n\"}").next().unwrap_or("");
                eprintln!("  in-flight case of shard {s} (first 600 bytes): {}", first.chars().take(600).collect::<String>());
            }
            exit = exit.max(2);
            exhaustive = false;
            continue;
        };
        if !status.success() || !out.exists() {
            // worker died: attribute to the in-flight case if journaled
            let j = out.with_extension("journal");
            let mut attributed = false;
            if let Some(case) = read_journal(&j) {
                match replay_in_child(id, &case) {
                    Err(f) => {
                        fails.push(f);
                        attributed = true;
                    }
                    Ok(()) => {}
                }
            }
            if !attributed {
                eprintln!("INCONCLUSIVE property={id}: shard {s} died ({status:?}) and the in-flight case does not reproduce alone");
                exit = exit.max(2);
            }
            exhaustive = false;
            continue;
        }
        let v: Value = serde_json::from_str(&std::fs::read_to_string(&out).unwrap()).unwrap();
        merged_evals += v["evals"].as_u64().unwrap_or(0);
        for h in v["nontrivial"].as_array().unwrap() {
            merged_nt.insert(h.as_u64().unwrap());
        }
        for smp in v["samples"].as_array().unwrap() {
            if samples.len() < 12 {
                samples.push(smp.clone());
            }
        }
        for (k, n) in v["classes"].as_object().unwrap() {
            *classes.entry(k.clone()).or_insert(0) += n.as_u64().unwrap_or(0);
        }
        excluded += v["excluded"].as_u64().unwrap_or(0);
        exhaustive &= v["exhaustive"].as_bool().unwrap_or(false);
        for n in v["notes"].as_array().unwrap() {
            notes.push(n.as_str().unwrap_or("").to_string());
        }
        for (k, n) in v["known_hits"].as_object().unwrap() {
            *known_hits.entry(k.clone()).or_insert(0) += n.as_u64().unwrap_or(0);
        }
        for f in v["violations"].as_array().unwrap() {
            fails.push(Fail::new(
                f["sig"].as_str().unwrap_or(""),
                f["msg"].as_str().unwrap_or(""),
                f["case"].clone(),
            ));
        }
    }
    let _ = std::fs::remove_dir_all(&dir);

    // distinct by signature; unknown ones are violations
    let mut seen_sigs = BTreeSet::new();
    for f in &fails {
        if !seen_sigs.insert(f.sig.clone()) {
            continue;
        }
        if let Some(k) = known.iter().find(|k| k.status == "open" && k.signature == f.sig) {
            known_lines.insert(format!("KNOWN-FINDING: property={id} {} [{}] {}", k.id, k.signature, k.what));
            continue;
        }
        let path = write_replay(id, f);
        println!("VIOLATION property={id} replay={path}");
        println!("  signature: {}\n  {}", f.sig, f.msg);
        violations_n += 1;
        exit = 1;
    }
    for (sig, n) in &known_hits {
        if let Some(k) = known.iter().find(|k| k.status == "open" && &k.signature == sig) {
            known_lines.insert(format!("KNOWN-FINDING: property={id} {} [{}] {}", k.id, k.signature, k.what));
            notes.push(format!("search met open finding {} {} times", k.id, n));
        }
    }
    for l in &known_lines {
        println!("{l}");
    }

    let floor = (def.floor)(tier);
    if exit == 0 && (merged_nt.len() as u64) < floor {
        eprintln!(
            "INCONCLUSIVE property={id}: only {} distinct non-trivial cases (floor {floor}); generator problem",
            merged_nt.len()
        );
        exit = 2;
    }

    // ---- evidence
    let wall = t0.elapsed().as_secs_f64();
    let mut cov = Map::new();
    cov.insert("evaluations".into(), json!(merged_evals));
    cov.insert("distinct_nontrivial".into(), json!(merged_nt.len()));
    cov.insert("rule".into(), json!(def.rule));
    cov.insert("samples".into(), json!(samples));
    cov.insert("classes".into(), json!(classes));
    cov.insert("excluded_by_construction".into(), json!(excluded));
    cov.insert("exhaustive".into(), json!(exhaustive));
    cov.insert("replayed_witnesses".into(), json!(replayed));
    cov.insert("known_findings_reported".into(), json!(known_lines.iter().collect::<Vec<_>>()));
    cov.insert("shards".into(), json!(nshards));
    cov.insert("notes".into(), json!(notes));
    let ev = json!({
        "property_id": id, "tier": tier.name(), "seed": seed as i64, "level": "exploration",
        "coverage": Value::Object(cov),
        "assumptions": def.assumptions, "wall_s": wall, "violations": violations_n,
    });
    let _ = std::fs::create_dir_all(format!("{VERIF}/evidence"));
    let ev_path = evidence_out.unwrap_or_else(|| format!("{VERIF}/evidence/{id}.json"));
    let mut f = std::fs::File::create(ev_path).expect("evidence file");
    f.write_all(serde_json::to_string_pretty(&ev).unwrap().as_bytes()).unwrap();
    println!(
        "property={id} tier={} seed={seed} evaluations={merged_evals} distinct_nontrivial={} violations={violations_n} exit={exit} wall={wall:.1}s",
        tier.name(),
        merged_nt.len()
    );
    exit
}

/// `pv replay <file> [--raw]`: strict re-execution without proptest.
pub fn replay_main(defs: &[CheckDef], path: &str, raw: bool) -> i32 {
    let text = std::fs::read_to_string(path).expect("read replay file");
    let v: Value = serde_json::from_str(&text).expect("replay json");
    let id = v["property"].as_str().expect("property field");
    let def = defs.iter().find(|d| d.id == id).expect("unknown property");
    std::panic::set_hook(Box::new(|_| {}));
    let case = v["case"].clone();
    let rp = def.replay;
    let res = std::thread::Builder::new()
        .stack_size(if raw { 8 << 20 } else { 1 << 30 })
        .spawn(move || rp(&case))
        .unwrap()
        .join();
    match res {
        Ok(Ok(())) => {
            if !raw {
                println!("property={id} holds on {path}");
            }
            0
        }
        Ok(Err(f)) => {
            if raw {
                println!("REPLAY-FAIL {}", json!({"sig": f.sig, "msg": f.msg}));
            } else {
                println!("VIOLATION property={id} replay={path}");
                println!("  signature: {}\n  {}", f.sig, f.msg);
            }
            1
        }
        Err(_) => {
            if raw {
                println!("REPLAY-FAIL {}", json!({"sig": "harness-panic", "msg": "replay panicked"}));
            }
            3
        }
    }
}

/// Catch a panic of the code under test and return its message.
pub fn catch<T>(f: impl FnOnce() -> T) -> Result<T, String> {
    match std::panic::catch_unwind(std::panic::AssertUnwindSafe(f)) {
        Ok(v) => Ok(v),
        Err(e) => Err(e
            .downcast_ref::<String>()
            .cloned()
            .or_else(|| e.downcast_ref::<&str>().map(|s| s.to_string()))
            .unwrap_or_else(|| "panic".to_string())),
    }
}
