//! C07 — the grammar reader reconstructs exactly the grammar that was written: abstract grammar
//! -> concrete text under a generated *spelling* (gaps, comments, docs, escape forms, redundant
//! parentheses, leading `|`) -> pest_meta parser + consume_rules -> must equal the abstract rules.

use crate::fw::*;
use crate::gram::*;
use crate::vmrun::{config_name, EXTRAS};
use pest_meta::ast::{Expr, RuleType};
use pest_meta::parser;
use proptest::prelude::*;
use serde_json::{json, Value};

// ---------------------------------------------------------------- widening of literals/numbers
const WIDE_CHARS: [char; 26] = ['a', 'Z', '0', ' ', '"', '\'', '\\', '\n', '\r', '\t', '\0', '\u{1}', '\u{7f}', '\u{80}', '\u{ff}', 'é', 'ß', '€', '\u{2028}', '😀', '\u{10FFFF}', '/', '*', '{', '#', '^'];
const WIDE_COUNTS: [u32; 8] = [1, 2, 3, 7, 255, 65536, 2147483648, 4294967295];
const WIDE_INDICES: [i32; 9] = [0, 1, -1, 2, -3, 1000, -1000, i32::MAX, i32::MIN];
const IDENTS: [&str; 8] = ["a", "_x1", "A_b", "r0", "zz_9", "POP_x", "PEEKY", "e"];

struct Widen<'a> {
    data: &'a [u8],
    i: usize,
}
impl Widen<'_> {
    fn next(&mut self, n: usize) -> usize {
        if self.data.is_empty() {
            return 0;
        }
        let v = self.data[self.i % self.data.len()] as usize;
        self.i += 1;
        (v * n) >> 8
    }
    fn string(&mut self, keep_empty: bool, old: &str) -> String {
        if old.is_empty() && keep_empty {
            return String::new();
        }
        let n = 1 + self.next(4);
        (0..n).map(|_| WIDE_CHARS[self.next(WIDE_CHARS.len())]).collect()
    }
    fn expr(&mut self, e: &mut GE) {
        match e {
            GE::Str(s) => *s = self.string(true, s),
            GE::Insens(s) => *s = self.string(true, s),
            GE::PushLit(s) => *s = self.string(true, s),
            GE::Range(a, b) => {
                *a = WIDE_CHARS[self.next(WIDE_CHARS.len())];
                *b = WIDE_CHARS[self.next(WIDE_CHARS.len())];
            }
            GE::PeekSlice(a, b) => {
                if a.is_some() {
                    *a = Some(WIDE_INDICES[self.next(WIDE_INDICES.len())]);
                }
                if b.is_some() {
                    *b = Some(WIDE_INDICES[self.next(WIDE_INDICES.len())]);
                }
            }
            GE::RepExact(x, n) => {
                *n = WIDE_COUNTS[self.next(WIDE_COUNTS.len())];
                self.expr(x);
            }
            GE::RepMin(x, n) => {
                // keep 0 as 0: the validator treats `{0,}` bodies like `*` bodies either way
                if *n != 0 {
                    *n = WIDE_COUNTS[self.next(WIDE_COUNTS.len())];
                }
                self.expr(x);
            }
            GE::RepMax(x, n) => {
                *n = WIDE_COUNTS[self.next(WIDE_COUNTS.len())];
                self.expr(x);
            }
            GE::RepMinMax(x, m, n) => {
                let hi = WIDE_COUNTS[self.next(WIDE_COUNTS.len())];
                if *m != 0 {
                    *m = WIDE_COUNTS[self.next(WIDE_COUNTS.len())].min(hi);
                }
                *n = hi;
                self.expr(x);
            }
            GE::Pos(x) | GE::Neg(x) | GE::Opt(x) | GE::Rep(x) | GE::RepOnce(x) | GE::Push(x) | GE::Tag(x, _) => self.expr(x),
            GE::Seq(a, b) | GE::Choice(a, b) => {
                self.expr(a);
                self.expr(b);
            }
            _ => {}
        }
    }
}

// ---------------------------------------------------------------- expected AST
fn expected_expr(g: &Gram, e: &GE) -> Expr {
    let b = |x: &GE| Box::new(expected_expr(g, x));
    match e {
        GE::Str(s) => Expr::Str(s.clone()),
        GE::Insens(s) => Expr::Insens(s.clone()),
        GE::Range(a, c) => Expr::Range(a.to_string(), c.to_string()),
        GE::Ref(i) => Expr::Ident(rule_name_of(g, *i)),
        GE::Builtin(n) | GE::Named(n) => Expr::Ident(n.to_string()),
        GE::PeekSlice(a, c) => Expr::PeekSlice(a.unwrap_or(0), *c),
        GE::Pos(x) => Expr::PosPred(b(x)),
        GE::Neg(x) => Expr::NegPred(b(x)),
        GE::Seq(x, y) => Expr::Seq(b(x), b(y)),
        GE::Choice(x, y) => Expr::Choice(b(x), b(y)),
        GE::Opt(x) => Expr::Opt(b(x)),
        GE::Rep(x) => Expr::Rep(b(x)),
        GE::RepOnce(x) => Expr::RepOnce(b(x)),
        GE::RepExact(x, n) => Expr::RepExact(b(x), *n),
        GE::RepMin(x, n) => Expr::RepMin(b(x), *n),
        GE::RepMax(x, n) => Expr::RepMax(b(x), *n),
        GE::RepMinMax(x, m, n) => Expr::RepMinMax(b(x), *m, *n),
        GE::Push(x) => Expr::Push(b(x)),
        #[cfg(feature = "extras")]
        GE::PushLit(s) => Expr::PushLiteral(s.clone()),
        #[cfg(feature = "extras")]
        GE::Tag(x, t) => Expr::NodeTag(b(x), t.clone()),
        #[cfg(not(feature = "extras"))]
        GE::PushLit(_) | GE::Tag(..) => unreachable!("extras-only construct generated in the default configuration"),
    }
}

fn ty_of(t: Ty) -> RuleType {
    match t {
        Ty::Normal => RuleType::Normal,
        Ty::Silent => RuleType::Silent,
        Ty::Atomic => RuleType::Atomic,
        Ty::Compound => RuleType::CompoundAtomic,
        Ty::NonAtomic => RuleType::NonAtomic,
    }
}

// ---------------------------------------------------------------- adversarial spelling
pub struct Speller<'a> {
    data: &'a [u8],
    i: usize,
    out: String,
    pub comments: usize,
    pub escapes: usize,
    pub forced_parens: usize,
    pub redundant: bool,
    pub gap_after_caret: bool,
}

impl<'a> Speller<'a> {
    fn pick(&mut self, n: usize) -> usize {
        if self.data.is_empty() {
            return 0;
        }
        let v = self.data[self.i % self.data.len()] as usize;
        self.i += 1;
        (v * n) >> 8
    }
    fn gap(&mut self) {
        match self.pick(12) {
            0..=4 => {}
            5 | 6 => self.out.push(' '),
            7 => self.out.push('\t'),
            8 => self.out.push('\n'),
            9 => self.out.push_str("\r\n  "),
            10 => {
                self.comments += 1;
                self.out.push_str("// a \"comment\" { with | tokens\n");
            }
            _ => {
                self.comments += 1;
                self.out.push_str("/* block /* nested */ \"x\" */");
            }
        }
    }
    /// token preceded by an optional gap
    fn tok(&mut self, t: &str) {
        self.gap();
        self.out.push_str(t);
    }
    fn esc_char(&mut self, c: char, in_string: bool) -> String {
        let quote = if in_string { '"' } else { '\'' };
        let raw_ok = c != quote && c != '\\';
        let named = match c {
            '"' => Some("\\\""),
            '\'' => Some("\\'"),
            '\\' => Some("\\\\"),
            '\n' => Some("\\n"),
            '\r' => Some("\\r"),
            '\t' => Some("\\t"),
            '\0' => Some("\\0"),
            _ => None,
        };
        let mut forms: Vec<String> = vec![];
        if raw_ok {
            forms.push(c.to_string());
            forms.push(c.to_string());
        }
        if let Some(n) = named {
            forms.push(n.to_string());
        }
        // a two-digit byte escape denotes the code point U+00NN (`char::from(u8)`), also above 0x7F
        if (c as u32) <= 0xff {
            forms.push(format!("\\x{:02X}", c as u32));
            forms.push(format!("\\x{:02x}", c as u32));
        }
        let v = c as u32;
        let min_digits = format!("{v:x}").len().max(2);
        for d in min_digits..=6 {
            forms.push(format!("\\u{{{:0width$X}}}", v, width = d));
        }
        let k = self.pick(forms.len());
        let f = forms[k].clone();
        if f.starts_with('\\') {
            self.escapes += 1;
        }
        f
    }
    fn string_lit(&mut self, s: &str) -> String {
        let mut o = String::from("\"");
        for c in s.chars() {
            let e = self.esc_char(c, true);
            o.push_str(&e);
        }
        o.push('"');
        o
    }
    fn char_lit(&mut self, c: char) -> String {
        let e = self.esc_char(c, false);
        format!("'{e}'")
    }
    fn int(&mut self, v: i32) -> String {
        if v < 0 && self.pick(3) == 0 {
            // integer = "-" ~ "0"* ~ '1'..'9' ~ number?
            format!("-00{}", (v as i64).abs())
        } else {
            v.to_string()
        }
    }

    fn expr(&mut self, g: &Gram, e: &GE, min_prec: u8) {
        let p = prec(e);
        let need = p < min_prec;
        let extra = !need && self.redundant && self.pick(5) == 0;
        if need {
            self.forced_parens += 1;
        }
        if need || extra {
            self.tok("(");
            if self.pick(6) == 0 {
                self.tok("|"); // a leading choice operator is legal in every expression
            }
            if extra && self.pick(2) == 0 {
                // doubly redundant
                self.tok("(");
                self.expr_inner(g, e);
                self.tok(")");
            } else {
                self.expr_inner(g, e);
            }
            self.tok(")");
        } else {
            self.expr_inner(g, e);
        }
    }

    fn expr_inner(&mut self, g: &Gram, e: &GE) {
        match e {
            GE::Str(s) => {
                let l = self.string_lit(s);
                self.tok(&l);
            }
            GE::Insens(s) => {
                self.tok("^");
                let l = self.string_lit(s);
                if self.gap_after_caret {
                    self.tok(&l);
                } else {
                    self.out.push_str(&l);
                }
            }
            GE::Range(a, b) => {
                let (x, y) = (self.char_lit(*a), self.char_lit(*b));
                self.tok(&x);
                self.tok("..");
                self.tok(&y);
            }
            GE::Ref(i) => {
                let n = rule_name_of(g, *i);
                self.tok(&n);
            }
            GE::Builtin(n) | GE::Named(n) => self.tok(n),
            GE::PeekSlice(a, b) => {
                self.tok("PEEK");
                self.tok("[");
                if let Some(a) = a {
                    let s = self.int(*a);
                    self.tok(&s);
                }
                self.tok("..");
                if let Some(b) = b {
                    let s = self.int(*b);
                    self.tok(&s);
                }
                self.tok("]");
            }
            GE::Pos(x) => {
                self.tok("&");
                self.expr(g, x, 3);
            }
            GE::Neg(x) => {
                self.tok("!");
                self.expr(g, x, 3);
            }
            GE::Seq(a, b) => {
                self.expr(g, a, 1);
                self.tok("~");
                self.expr(g, b, 2);
            }
            GE::Choice(a, b) => {
                self.expr(g, a, 0);
                self.tok("|");
                self.expr(g, b, 1);
            }
            GE::Opt(x) => {
                self.expr(g, x, 4);
                self.tok("?");
            }
            GE::Rep(x) => {
                self.expr(g, x, 4);
                self.tok("*");
            }
            GE::RepOnce(x) => {
                self.expr(g, x, 4);
                self.tok("+");
            }
            GE::RepExact(x, n) => {
                self.expr(g, x, 4);
                self.tok("{");
                self.tok(&n.to_string());
                self.tok("}");
            }
            GE::RepMin(x, n) => {
                self.expr(g, x, 4);
                self.tok("{");
                self.tok(&n.to_string());
                self.tok(",");
                self.tok("}");
            }
            GE::RepMax(x, n) => {
                self.expr(g, x, 4);
                self.tok("{");
                self.tok(",");
                self.tok(&n.to_string());
                self.tok("}");
            }
            GE::RepMinMax(x, m, n) => {
                self.expr(g, x, 4);
                self.tok("{");
                self.tok(&m.to_string());
                self.tok(",");
                self.tok(&n.to_string());
                self.tok("}");
            }
            GE::Push(x) => {
                self.tok("PUSH");
                self.tok("(");
                if self.pick(6) == 0 {
                    self.tok("|");
                }
                self.expr(g, x, 0);
                self.tok(")");
            }
            GE::PushLit(s) => {
                self.tok("PUSH_LITERAL");
                self.tok("(");
                let l = self.string_lit(s);
                self.tok(&l);
                self.tok(")");
            }
            GE::Tag(x, t) => {
                self.tok(&format!("#{t}"));
                self.tok("=");
                self.expr(g, x, 3);
            }
        }
    }
}

/// precedence levels as in gram.rs (0 choice, 1 sequence, 2 tag, 3 prefix, 4 postfix, 5 atom)
fn prec(e: &GE) -> u8 {
    match e {
        GE::Choice(..) => 0,
        GE::Seq(..) => 1,
        GE::Tag(..) => 2,
        GE::Pos(..) | GE::Neg(..) => 3,
        GE::Opt(..) | GE::Rep(..) | GE::RepOnce(..) | GE::RepExact(..) | GE::RepMin(..) | GE::RepMax(..) | GE::RepMinMax(..) => 4,
        _ => 5,
    }
}

pub struct Spelled {
    pub text: String,
    pub comments: usize,
    pub escapes: usize,
    pub forced_parens: usize,
}

pub fn spell(g: &Gram, data: &[u8], redundant: bool, gap_after_caret: bool) -> Spelled {
    let mut sp = Speller { data, i: 0, out: String::new(), comments: 0, escapes: 0, forced_parens: 0, redundant, gap_after_caret };
    if sp.pick(4) == 0 {
        sp.out.push_str("//! grammar doc { } \"\n//!second\n");
    }
    for r in &g.rules {
        if sp.pick(4) == 0 {
            sp.gap();
            sp.out.push_str("/// rule doc | ~ *\n");
        }
        sp.tok(&r.name);
        sp.tok("=");
        if r.ty != Ty::Normal {
            sp.tok(r.ty.prefix());
        }
        sp.tok("{");
        if sp.pick(4) == 0 {
            sp.tok("|");
        }
        sp.expr(g, &r.expr, 0);
        sp.tok("}");
    }
    sp.gap();
    Spelled { text: sp.out, comments: sp.comments, escapes: sp.escapes, forced_parens: sp.forced_parens }
}

fn max_same_level_ops(e: &GE) -> usize {
    fn chain(e: &GE, seq: bool) -> usize {
        match (e, seq) {
            (GE::Seq(a, b), true) => 1 + chain(a, true) + chain(b, true),
            (GE::Choice(a, b), false) => 1 + chain(a, false) + chain(b, false),
            _ => 0,
        }
    }
    let here = chain(e, true).max(chain(e, false));
    let below = match e {
        GE::Pos(x) | GE::Neg(x) | GE::Opt(x) | GE::Rep(x) | GE::RepOnce(x) | GE::RepExact(x, _) | GE::RepMin(x, _) | GE::RepMax(x, _)
        | GE::RepMinMax(x, _, _) | GE::Push(x) | GE::Tag(x, _) => max_same_level_ops(x),
        GE::Seq(a, b) | GE::Choice(a, b) => max_same_level_ops(a).max(max_same_level_ops(b)),
        _ => 0,
    };
    here.max(below)
}

fn read(text: &str) -> Result<Result<Vec<pest_meta::ast::Rule>, String>, String> {
    catch(|| {
        let pairs = parser::parse(parser::Rule::grammar_rules, text).map_err(|e| format!("syntax error: {e}"))?;
        parser::consume_rules(pairs).map_err(|es| es.iter().map(|e| format!("{e}")).collect::<Vec<_>>().join("\n"))
    })
}

pub fn check(ctx: &mut Ctx, g0: &Gram, widen: &[u8], spelling: &[u8], redundant: bool, gap_after_caret: bool) -> Result<(), Fail> {
    let mut g = g0.clone();
    let mut w = Widen { data: widen, i: 0 };
    for r in g.rules.iter_mut() {
        w.expr(&mut r.expr);
    }
    // the canonical spelling must be accepted for the case to count (validity is the generator's job)
    let canon = print_grammar(&g);
    ctx.class("generated");
    match read(&canon) {
        Ok(Ok(_)) => {}
        Ok(Err(_)) => {
            ctx.class("rejected-by-validator");
            return Ok(());
        }
        Err(p) => return Err(Fail::new("c07:reader-panic", format!("reader panicked on:\n{canon}\n{p}"), json!({"config": config_name(), "text": canon, "expected": Value::Null}))),
    }
    let sp = spell(&g, spelling, redundant, gap_after_caret);
    let expected: Vec<(String, RuleType, Expr)> = g.rules.iter().map(|r| (r.name.clone(), ty_of(r.ty), expected_expr(&g, &r.expr))).collect();
    ctx.eval();
    let case = json!({"config": config_name(), "text": sp.text, "canonical": canon});
    let got = match read(&sp.text) {
        Err(p) => return Err(Fail::new("c07:reader-panic", format!("reader panicked on:\n{}\n{p}", sp.text), case)),
        Ok(Err(e)) => {
            return Err(Fail::new(
                "c07:legal-spelling-rejected",
                format!("the same grammar is accepted in canonical spelling:\n{canon}but rejected in this legal spelling:\n{}\nerror: {e}", sp.text),
                case,
            ))
        }
        Ok(Ok(r)) => r,
    };
    let got_t: Vec<(String, RuleType, Expr)> = got.into_iter().map(|r| (r.name, r.ty, r.expr)).collect();
    if got_t != expected {
        // which rule / what kind
        let mut what = "rule-list".to_string();
        for (a, b) in got_t.iter().zip(expected.iter()) {
            if a != b {
                what = if a.0 != b.0 {
                    "name".into()
                } else if a.1 != b.1 {
                    "modifier".into()
                } else {
                    classify_diff(&a.2, &b.2)
                };
                break;
            }
        }
        return Err(Fail::new(
            format!("c07:misread:{what}"),
            format!("text:\n{}\nread as:   {:?}\nexpected:  {:?}", sp.text, got_t, expected),
            case,
        ));
    }
    let ops = g.rules.iter().map(|r| max_same_level_ops(&r.expr)).max().unwrap_or(0);
    if (sp.forced_parens >= 1 || ops >= 3) && sp.comments >= 1 && sp.escapes >= 1 {
        ctx.nontrivial(&sp.text);
        ctx.class("nontrivial");
        let t = sp.text.clone();
        ctx.sample(|| json!({"text": t}));
    }
    Ok(())
}

/// first differing node kind, for the signature
fn classify_diff(a: &Expr, b: &Expr) -> String {
    use Expr::*;
    match (a, b) {
        (Str(x), Str(y)) if x != y => "string-contents".into(),
        (Insens(x), Insens(y)) if x != y => "insensitive-string-contents".into(),
        (Range(..), Range(..)) => "range-bounds".into(),
        (Ident(..), Ident(..)) => "identifier".into(),
        (PeekSlice(..), PeekSlice(..)) => "peek-indices".into(),
        (RepExact(x, n), RepExact(y, m)) | (RepMin(x, n), RepMin(y, m)) | (RepMax(x, n), RepMax(y, m)) => {
            if n != m {
                "repetition-count".into()
            } else {
                classify_diff(x, y)
            }
        }
        (RepMinMax(x, n1, n2), RepMinMax(y, m1, m2)) => {
            if (n1, n2) != (m1, m2) {
                "repetition-count".into()
            } else {
                classify_diff(x, y)
            }
        }
        (PosPred(x), PosPred(y)) | (NegPred(x), NegPred(y)) | (Opt(x), Opt(y)) | (Rep(x), Rep(y)) | (RepOnce(x), RepOnce(y)) | (Push(x), Push(y)) => classify_diff(x, y),
        (Seq(x1, x2), Seq(y1, y2)) | (Choice(x1, x2), Choice(y1, y2)) => {
            if x1 != y1 {
                classify_diff(x1, y1)
            } else {
                classify_diff(x2, y2)
            }
        }
        _ => "operator-structure".into(),
    }
}

pub fn run(ctx: &mut Ctx) {
    let mut cfg = GenCfg::standard(EXTRAS);
    cfg.max_rules = 3;
    let n = ctx.share(ctx.tier.pick(400_000, 6_000_000));
    let strat = (grammar_strategy(cfg), proptest::collection::vec(any::<u8>(), 8..40), proptest::collection::vec(any::<u8>(), 16..120), any::<bool>(), any::<bool>());
    ctx.run_prop(n, 1, strat, |ctx, (g, widen, spelling, redundant, gap_caret)| check(ctx, g, widen, spelling, *redundant, *gap_caret));
}

pub fn replay(case: &Value) -> Result<(), Fail> {
    // a replay re-reads the spelled text and the canonical text and requires equal rules
    let text = case["text"].as_str().expect("text");
    let canon = case["canonical"].as_str().unwrap_or("");
    let a = read(text).map_err(|p| Fail::new("c07:reader-panic", p, case.clone()))?;
    if canon.is_empty() {
        return Ok(());
    }
    let b = read(canon).map_err(|p| Fail::new("c07:reader-panic", p, case.clone()))?;
    match (a, b) {
        (Ok(x), Ok(y)) => {
            if x != y {
                let mut what = "rule-list".to_string();
                for (p, q) in x.iter().zip(y.iter()) {
                    if p != q {
                        what = if p.name != q.name { "name".into() } else if p.ty != q.ty { "modifier".into() } else { classify_diff(&p.expr, &q.expr) };
                        break;
                    }
                }
                return Err(Fail::new(format!("c07:misread:{what}"), format!("spelled text reads as {x:?}, canonical text as {y:?}"), case.clone()));
            }
            Ok(())
        }
        (Err(e), Ok(_)) => Err(Fail::new("c07:legal-spelling-rejected", e, case.clone())),
        _ => Ok(()),
    }
}

pub const DEF: CheckDef = CheckDef {
    id: "C07",
    rule: "proptest-generated valid grammars (1-3 rules + optional WHITESPACE/COMMENT, all operators, stack ops, tags/PUSH_LITERAL under grammar-extras) whose literals, range bounds, repetition counts and PEEK indices are then widened (quotes, backslashes, control characters, NUL, DEL, non-BMP and U+10FFFF; counts up to 2^32-1; indices across the i32 range), x a generated spelling: every inter-token gap independently empty/space/tab/newline/CRLF/line comment/nested block comment; optional //! and /// doc lines; optional leading `|`; each literal character independently raw, named escape, \\xHH (code points <= 0xFF, either case) or \\u{..} with 2-6 digits; negative indices optionally with leading zeros; only the parentheses precedence requires or (second mode) random redundant ones; optional gap between `^` and its string. Oracle: round trip - parser::parse + consume_rules on the spelled text must equal the abstract rules (names, modifiers, operator tree, unescaped contents, bounds, indices). Non-trivial = (>= 1 precedence-forced parenthesis or >= 3 operators of one level) and >= 1 comment and >= 1 escape in the spelling; distinct = distinct spelled text. Both feature configurations.",
    assumptions: &["only grammars whose canonical spelling passes validation are counted (consume_rules validates); \\xHH is read as the code point U+00HH (what the reader's char::from(u8) does; the prose defers to Rust's byte escapes)"],
    floor: |t| t.pick(50_000, 500_000),
    shards: |_| 16,
    run,
    replay,
    journal: false,
    pre: None,
};
