//! C09 — the grammar front-end is total: any text yields rules or located, renderable errors;
//! never a panic or abort.

use crate::fw::*;
use crate::gram::*;
use crate::vmrun::{config_name, EXTRAS};
use pest::error::InputLocation;
use proptest::prelude::*;
use serde_json::{json, Value};

pub const MAX_TEXT: usize = 4096;
pub const MAX_NESTING: usize = 200;
pub const MAX_REP_PRODUCT: u64 = 128;
pub const MAX_UNROLLED_BYTES: u64 = 65_536;

/// Conservative size filter ("repetition counts of bounded size"): the product of all numbers
/// that appear inside `{...}` repetition suffixes must stay <= MAX_REP_PRODUCT.
pub fn within_bounds(text: &str) -> bool {
    if text.len() > MAX_TEXT {
        return false;
    }
    let mut depth = 0usize;
    let mut maxd = 0usize;
    for c in text.chars() {
        match c {
            '(' | '[' | '{' => {
                depth += 1;
                maxd = maxd.max(depth);
            }
            ')' | ']' | '}' => depth = depth.saturating_sub(1),
            _ => {}
        }
    }
    if maxd > MAX_NESTING {
        return false;
    }
    let (counts, pluses) = unroll_chain(text);
    // unrolling copies the repeated expression: bound the size of the unrolled grammar, not only the counts
    // (a 2 KiB expression repeated 4096 times is gigabytes of AST); stacked `+` (each doubles) beyond 14 levels is
    // the recorded finding D23 and is excluded by construction
    // counts and stacked `+` multiply (`"a"{128}` under 14 `+` would be two million copies)
    counts <= MAX_REP_PRODUCT
        && counts.saturating_mul(text.len() as u64) <= MAX_UNROLLED_BYTES
        && pluses <= MAX_STACKED_PLUS
        && counts.saturating_mul(1u64 << pluses.min(40)) <= MAX_COPIES
}

pub const MAX_COPIES: u64 = 16_384;

pub const MAX_STACKED_PLUS: u32 = 14;
/// rendered size of the optimized rules per byte of text and unit of repetition count (measured: <= 6)
pub const SIZE_PER_BYTE: usize = 64;

/// Along the deepest nesting chain of postfix operators: (product of the explicit repetition counts, number of `+`).
/// Textual: strings, character literals and comments are skipped, parentheses nest, a postfix operator applies to
/// the operand or group just closed. `e{n,m}` counts max(n,m) (numbers beyond u32 are rejected by the reader).
pub fn unroll_chain(text: &str) -> (u64, u32) {
    let b = text.as_bytes();
    // per open group: best (counts, pluses) seen among its operands
    let mut stack: Vec<(u64, u32)> = vec![(1, 0)];
    let mut cur: (u64, u32) = (1, 0); // factor of the operand just completed
    let better = |a: (u64, u32), c: (u64, u32)| -> (u64, u32) { (a.0.max(c.0), a.1.max(c.1)) };
    let mut i = 0;
    while i < b.len() {
        let c = b[i];
        match c {
            b'"' | b'\'' => {
                // literal: skip to the closing quote (escapes skip one byte)
                let q = c;
                i += 1;
                while i < b.len() && b[i] != q {
                    if b[i] == b'\\' {
                        i += 1;
                    }
                    i += 1;
                }
                let top = stack.last_mut().unwrap();
                *top = better(*top, cur);
                cur = (1, 0);
            }
            b'/' if b.get(i + 1) == Some(&b'/') => {
                while i < b.len() && b[i] != b'\n' {
                    i += 1;
                }
            }
            b'/' if b.get(i + 1) == Some(&b'*') => {
                i += 2;
                while i + 1 < b.len() && !(b[i] == b'*' && b[i + 1] == b'/') {
                    i += 1;
                }
                i += 1;
            }
            b'(' => {
                let top = stack.last_mut().unwrap();
                *top = better(*top, cur);
                cur = (1, 0);
                stack.push((1, 0));
            }
            b')' => {
                let inner = better(stack.pop().unwrap_or((1, 0)), cur);
                if stack.is_empty() {
                    stack.push((1, 0));
                }
                cur = inner;
            }
            b'+' => cur.1 += 1,
            b'*' | b'?' => {}
            b'{' => {
                // repetition suffix if the braces hold only digits, commas and blanks; otherwise a rule body
                let mut j = i + 1;
                let mut nums: Vec<u64> = vec![];
                let mut num: Option<u64> = None;
                let mut ok = true;
                while j < b.len() && b[j] != b'}' {
                    match b[j] {
                        d if d.is_ascii_digit() => num = Some(num.unwrap_or(0).saturating_mul(10).saturating_add((d - b'0') as u64)),
                        b',' | b' ' | b'\t' | b'\n' | b'\r' => {
                            if let Some(n) = num.take() {
                                nums.push(n);
                            }
                        }
                        _ => {
                            ok = false;
                            break;
                        }
                    }
                    j += 1;
                }
                if let Some(n) = num {
                    nums.push(n);
                }
                if ok && j < b.len() && !nums.is_empty() {
                    let m = nums.iter().copied().filter(|n| *n <= u32::MAX as u64).max().unwrap_or(1).max(1);
                    cur.0 = cur.0.saturating_mul(m);
                    i = j;
                } else {
                    // a rule body opens: treat like a group that is never closed by ')'
                    let top = stack.last_mut().unwrap();
                    *top = better(*top, cur);
                    cur = (1, 0);
                }
            }
            c if c.is_ascii_whitespace() => {}
            _ => {
                // start of another operand / operator: fold the finished operand into its group
                if !(c.is_ascii_alphanumeric() || c == b'_') || cur != (1, 0) {
                    let top = stack.last_mut().unwrap();
                    *top = better(*top, cur);
                    cur = (1, 0);
                }
            }
        }
        i += 1;
    }
    let mut best = cur;
    for s in stack {
        best = better(best, s);
    }
    best
}

pub const CALLS_PER_BYTE: usize = 200;
pub const CALLS_SLACK: usize = 16;
/// steps of the validator's recursive analyses per byte of text (largest ratio measured on the repository's
/// grammars and a libFuzzer corpus: 3; a chain of 290 rules each looking down the whole chain: ~10)
pub const VALIDATOR_STEPS_PER_BYTE: usize = 150;
/// expression-traversal steps of the optimizer per byte (x counts^2): largest measured ratio 5 (sql.pest); the
/// restorer's quadratic behaviour in a count reaches 25 per byte per count at count 128
pub const OPTIMIZER_STEPS_PER_BYTE: usize = 64;
/// absolute cap on the optimizer's traversal budget (the largest legitimate case measured, count 128 on a
/// self-referential body, needs 0.2 M steps)
pub const OPTIMIZER_STEPS_CAP: usize = 50_000_000;

/// Some(budget) when parsing `text` as a grammar needs more combinator calls than the linear budget.
pub fn call_budget_exceeded(text: &str) -> Option<usize> {
    let budget = CALLS_PER_BYTE * (text.len() + CALLS_SLACK);
    pest::set_call_limit(std::num::NonZeroUsize::new(budget));
    let r = catch(|| match pest_meta::parser::parse(pest_meta::parser::Rule::grammar_rules, text) {
        Err(e) => e.variant.message() == "call limit reached",
        Ok(_) => false,
    });
    pest::set_call_limit(None);
    match r {
        Ok(true) => Some(budget),
        _ => None, // a panic is reported by the main oracle below
    }
}

fn loc_ok(text: &str, loc: &InputLocation) -> bool {
    let ok = |p: usize| p <= text.len() && text.is_char_boundary(p);
    match loc {
        InputLocation::Pos(p) => ok(*p),
        InputLocation::Span((a, b)) => ok(*a) && ok(*b) && a <= b,
    }
}

pub fn check_text(ctx: &mut Ctx, text: &str, origin: &str) -> Result<(), Fail> {
    if !within_bounds(text) {
        ctx.excluded += 1;
        return Ok(());
    }
    ctx.eval();
    let case = json!({"config": config_name(), "text": text});
    ctx.inflight(&case);
    // "in bounded time", made deterministic: the combinator calls of the syntactic parse, counted by pest's own
    // call limit, stay within a budget linear in the text (CALLS_PER_BYTE is ~7x the largest ratio measured
    // on the repository's grammars, on generated grammars and on a libFuzzer corpus with its openers neutralised)
    if let Some(over) = call_budget_exceeded(text) {
        // attribution by counterfactual: the same text with every "/*" blanked
        let neutral = text.replace("/*", "  ");
        let sig = if call_budget_exceeded(&neutral).is_none() { "c09:call-budget-exceeded:block-comment-openers" } else { "c09:call-budget-exceeded" };
        ctx.class(&format!("{origin}:{sig}"));
        return Err(Fail::new(
            sig,
            format!("the meta parser needs more than {over} combinator calls for this {}-byte text (budget {CALLS_PER_BYTE}*(len+{CALLS_SLACK})): super-linear backtracking ({origin}):\n{text}", text.len()),
            case,
        ));
    }
    let r = catch(|| {
        // docs::consume runs on whatever the meta parser accepts
        let syntactic = pest_meta::parser::parse(pest_meta::parser::Rule::grammar_rules, text);
        let reached = syntactic.is_ok();
        if let Ok(pairs) = syntactic {
            let d = pest_generator::docs::consume(pairs);
            let _ = format!("{d:?}");
        }
        // the validator's recursive analyses get a step budget of their own (cfg hook in meta/src/validator.rs)
        pest_meta::validator::verif::reset(VALIDATOR_STEPS_PER_BYTE * (text.len() + CALLS_SLACK));
        // ... and so do the optimizer's expression traversals (cfg hook in meta/src/optimizer/mod.rs and ast.rs);
        // the restorer is quadratic in a repetition count, hence counts^2
        let counts = unroll_chain(text).0 as usize;
        pest_meta::optimizer::verif::reset_steps((OPTIMIZER_STEPS_PER_BYTE * (text.len() + CALLS_SLACK) * counts * counts).min(OPTIMIZER_STEPS_CAP));
        let optimized = pest_meta::parse_and_optimize(text);
        pest_meta::validator::verif::reset(usize::MAX);
        pest_meta::optimizer::verif::reset_steps(usize::MAX);
        match optimized {
            Ok((builtins, rules)) => {
                let _ = builtins.len();
                let mut rendered = 0usize;
                for r in &rules {
                    rendered += format!("{} {:?} {}", r.name, r.ty, r.expr).len();
                }
                // size of what the optimizer returns, relative to the text and the repetition counts it spells out
                let budget = SIZE_PER_BYTE * (text.len() + CALLS_SLACK) * unroll_chain(text).0 as usize;
                if rendered > budget {
                    return Err(format!("SIZE-BUDGET the optimized rules render to {rendered} bytes, more than {SIZE_PER_BYTE}*(len+{CALLS_SLACK})*counts = {budget}"));
                }
                Ok((reached, rules.len()))
            }
            Err(errors) => {
                let mut bad = None;
                if errors.is_empty() {
                    bad = Some("Err with an empty error list".to_string());
                }
                let mut min_pos = usize::MAX;
                for e in errors {
                    if !loc_ok(text, &e.location) {
                        bad = Some(format!("error location {:?} is not inside the text (len {})", e.location, text.len()));
                    }
                    min_pos = min_pos.min(match e.location {
                        InputLocation::Pos(p) => p,
                        InputLocation::Span((a, _)) => a,
                    });
                    let shown = format!("{e}");
                    let renamed = e.renamed_rules(pest_meta::parser::rename_meta_rule);
                    let shown2 = format!("{renamed}");
                    if shown.is_empty() || shown2.is_empty() {
                        bad = Some("error renders as an empty string".into());
                    }
                }
                match bad {
                    Some(b) => Err(b),
                    None => Ok((reached, usize::MAX - min_pos.min(usize::MAX - 1))),
                }
            }
        }
    });
    pest_meta::validator::verif::reset(usize::MAX);
    pest_meta::optimizer::verif::reset_steps(usize::MAX);
    if matches!(&r, Err(p) if p.contains(pest_meta::optimizer::verif::LIMIT_MESSAGE)) {
        ctx.class(&format!("{origin}:optimizer-step-budget-exceeded"));
        return Err(Fail::new(
            // stacked `+` (finding D23) shows up here first: the copies are made by a traversal
            if unroll_chain(text).1 >= 2 { "c09:optimized-size-budget-exceeded:stacked-plus" } else { "c09:optimizer-step-budget-exceeded" },
            format!("optimizing this {}-byte text needs more than {OPTIMIZER_STEPS_PER_BYTE}*(len+{CALLS_SLACK})*counts^2 expression-traversal steps: a pass revisits sub-expressions or rules once per path ({origin}):\n{text}", text.len()),
            case,
        ));
    }
    if matches!(&r, Err(p) if p.contains(pest_meta::validator::verif::LIMIT_MESSAGE)) {
        ctx.class(&format!("{origin}:validator-step-budget-exceeded"));
    }
    match r {
        Err(p) if p.contains(pest_meta::validator::verif::LIMIT_MESSAGE) => Err(Fail::new(
            // attribution: the text's rule-reference graph has that many reference paths (harness-side count)
            if ref_path_count(text) >= 1000 { "c09:validator-step-budget-exceeded:reference-paths" } else { "c09:validator-step-budget-exceeded" },
            format!("validating this {}-byte text needs more than {} steps of the recursive analyses (left recursion / non-failing / non-progressing; budget {VALIDATOR_STEPS_PER_BYTE}*(len+{CALLS_SLACK})): the analyses enumerate paths through rule references ({origin}):\n{text}", text.len(), VALIDATOR_STEPS_PER_BYTE * (text.len() + CALLS_SLACK)),
            case,
        )),
        Err(p) => {
            let what = if p.contains("unwrap") || p.contains("ParseIntError") {
                "number"
            } else if p.contains("string literal") || p.contains("char literal") {
                "literal-escape"
            } else if p.contains("Expected prefix or primary") || p.contains("Pratt") {
                "pratt"
            } else if p.contains("overflow") || p.contains("capacity") {
                "arith"
            } else {
                "other"
            };
            Err(Fail::new(format!("c09:panic:{what}"), format!("the front-end panicked on this text ({origin}):\n{text}\npanic: {p}"), case))
        }
        Ok(Err(b)) if b.starts_with("SIZE-BUDGET") => {
            // attribution: stacked `+` operators (each level doubles the expression)
            let sig = if unroll_chain(text).1 >= 2 { "c09:optimized-size-budget-exceeded:stacked-plus" } else { "c09:optimized-size-budget-exceeded" };
            ctx.class(&format!("{origin}:{sig}"));
            Err(Fail::new(sig, format!("text ({origin}):\n{text}\n{b}"), case))
        }
        Ok(Err(b)) => Err(Fail::new("c09:bad-error", format!("text ({origin}):\n{text}\n{b}"), case)),
        Ok(Ok((reached, n))) => {
            ctx.class(&format!("{origin}:{}", if n < usize::MAX / 2 { "accepted" } else if reached { "rejected-after-syntax" } else { "syntax-error" }));
            // non-trivial: got past the meta parser, or failed near the end of the text
            let near_end = n >= usize::MAX / 2 && (usize::MAX - n) + 12 >= text.len();
            if reached || near_end {
                ctx.nontrivial(text);
                ctx.sample(|| json!({"text": text, "origin": origin}));
            }
            Ok(())
        }
    }
}

/// Largest number of reference paths starting at any rule of `text` (textual estimate: rule bodies are found by
/// bracket matching over the rough token list, references are identifier tokens naming a defined rule; a
/// reference back into the path under construction counts 0). Saturates at 10^12.
pub fn ref_path_count(text: &str) -> u64 {
    use std::collections::HashMap;
    let toks: Vec<String> = tokenise(text).into_iter().filter(|t| !t.chars().all(char::is_whitespace)).collect();
    let is_ident = |t: &str| t.chars().next().is_some_and(|c| c.is_alphabetic() || c == '_') && t.chars().all(|c| c.is_alphanumeric() || c == '_');
    let mut bodies: HashMap<String, Vec<String>> = HashMap::new();
    let mut i = 0;
    while i + 2 < toks.len() {
        if is_ident(&toks[i]) && toks[i + 1] == "=" {
            let mut j = i + 2;
            if j < toks.len() && ["_", "@", "$", "!"].contains(&toks[j].as_str()) {
                j += 1;
            }
            if j < toks.len() && toks[j] == "{" {
                let mut depth = 0usize;
                let mut refs = vec![];
                while j < toks.len() {
                    match toks[j].as_str() {
                        "{" => depth += 1,
                        "}" => {
                            depth -= 1;
                            if depth == 0 {
                                break;
                            }
                        }
                        t if is_ident(t) => refs.push(t.to_string()),
                        _ => {}
                    }
                    j += 1;
                }
                bodies.entry(toks[i].clone()).or_insert(refs);
                i = j;
            }
        }
        i += 1;
    }
    fn paths(r: &str, bodies: &HashMap<String, Vec<String>>, memo: &mut HashMap<String, u64>, stack: &mut Vec<String>) -> u64 {
        if let Some(v) = memo.get(r) {
            return *v;
        }
        if stack.iter().any(|s| s == r) || stack.len() > 300 {
            return 0;
        }
        stack.push(r.to_string());
        let mut n: u64 = 1;
        for x in bodies.get(r).map(|v| v.as_slice()).unwrap_or(&[]) {
            if bodies.contains_key(x) {
                n = n.saturating_add(paths(x, bodies, memo, stack)).min(1_000_000_000_000);
            }
        }
        stack.pop();
        memo.insert(r.to_string(), n);
        n
    }
    let mut memo = HashMap::new();
    let names: Vec<String> = bodies.keys().cloned().collect();
    names.iter().map(|r| paths(r, &bodies, &mut memo, &mut vec![])).max().unwrap_or(0)
}

// ----------------------------------------------------------------- generators
pub const DICT: [&str; 74] = [
    "a", "b", "r0", "WHITESPACE", "COMMENT", "ANY", "SOI", "EOI", "PUSH", "PUSH_LITERAL", "PEEK", "PEEK_ALL", "POP", "POP_ALL", "DROP", "ASCII_DIGIT", "LETTER", "=", "{", "}", "(", ")", "[", "]",
    "_", "@", "$", "!", "&", "~", "|", "?", "*", "+", ",", "..", "^", "#t", "#", "-", "0", "1", "2", "3", "00", "2147483647", "2147483648", "4294967295", "4294967296", "99999999999999999999", "-1",
    "-2147483649", "\"a\"", "\"\"", "\"\\n\"", "\"\\x41\"", "\"\\xff\"", "\"\\u{41}\"", "\"\\u{D800}\"", "\"\\u{110000}\"", "\"\\u{1}\"", "\"\\q\"", "\"", "'a'", "'\\''", "'", "'ab'", "//", "/*", "é", "\"日本語\"", "\t", "'€'", "\"é\t\"",
];
pub const GAPS: [&str; 8] = ["", " ", " ", "\n", " // c\n", " /* c */ ", "\t", " /* é日 */\t"];

fn tokenise(text: &str) -> Vec<String> {
    // rough lexer: identifiers/numbers, strings, char literals, single punctuation, whitespace runs
    let cs: Vec<char> = text.chars().collect();
    let mut out = vec![];
    let mut i = 0;
    while i < cs.len() {
        let c = cs[i];
        let start = i;
        if c.is_alphanumeric() || c == '_' {
            while i < cs.len() && (cs[i].is_alphanumeric() || cs[i] == '_') {
                i += 1;
            }
        } else if c == '"' || c == '\'' {
            i += 1;
            while i < cs.len() && cs[i] != c {
                if cs[i] == '\\' {
                    i += 1;
                }
                i += 1;
            }
            i = (i + 1).min(cs.len());
        } else if c.is_whitespace() {
            while i < cs.len() && cs[i].is_whitespace() {
                i += 1;
            }
        } else if c == '.' && cs.get(i + 1) == Some(&'.') {
            i += 2;
        } else {
            i += 1;
        }
        out.push(cs[start..i.min(cs.len())].iter().collect());
    }
    out
}

pub fn mutate(text: &str, ops: &[(u8, u16, u16)]) -> String {
    let mut toks = tokenise(text);
    for (kind, at, what) in ops {
        if toks.is_empty() {
            break;
        }
        let i = (*at as usize * toks.len()) >> 16;
        let d = DICT[(*what as usize * DICT.len()) >> 16].to_string();
        match kind % 8 {
            0 => {
                toks.remove(i);
            }
            1 => {
                let t = toks[i].clone();
                toks.insert(i, t);
            }
            2 => {
                let j = (*what as usize * toks.len()) >> 16;
                toks.swap(i, j);
            }
            3 => toks[i] = d,
            4 => toks.insert(i, d),
            5 => toks.truncate(i),
            6 => {
                // truncate inside a token (byte-level, kept on a char boundary)
                let t = toks[i].clone();
                let cut = (*what as usize * (t.len() + 1)) >> 16;
                let mut cut = cut.min(t.len());
                while !t.is_char_boundary(cut) {
                    cut -= 1;
                }
                toks[i] = t[..cut].to_string();
                toks.truncate(i + 1);
            }
            _ => {
                // replace a number by an extreme one
                if let Some(k) = toks.iter().position(|t| t.chars().all(|c| c.is_ascii_digit()) && !t.is_empty()) {
                    toks[k] = ["0", "2147483647", "2147483648", "4294967295", "4294967296", "18446744073709551616"][(*what as usize * 6) >> 16].to_string();
                } else {
                    toks.insert(i, d);
                }
            }
        }
    }
    toks.concat()
}

pub fn corpus() -> Vec<String> {
    let mut v = vec![];
    for p in [
        "/repo/meta/src/grammar.pest",
        "/repo/grammars/src/grammars/json.pest",
        "/repo/grammars/src/grammars/toml.pest",
        "/repo/grammars/src/grammars/http.pest",
        "/repo/grammars/src/grammars/sql.pest",
        "/repo/derive/tests/grammar.pest",
        "/repo/derive/tests/lists.pest",
        "/repo/derive/tests/reporting.pest",
        "/repo/derive/tests/implicit.pest",
        "/repo/derive/tests/opt.pest",
        "/repo/derive/tests/oneormore.pest",
        "/repo/derive/tests/surround.pest",
    ] {
        if let Ok(s) = std::fs::read_to_string(p) {
            // keep within the stated bound by cutting at rule boundaries
            let mut acc = String::new();
            for line in s.lines() {
                if acc.len() + line.len() + 1 > 3000 {
                    v.push(std::mem::take(&mut acc));
                }
                acc.push_str(line);
                acc.push('\n');
            }
            if !acc.is_empty() {
                v.push(acc);
            }
        }
    }
    v
}

pub fn run(ctx: &mut Ctx) {
    let mut t0 = std::time::Instant::now();
    let mut lap = |ctx: &mut Ctx, what: &str| {
        if ctx.shard == 0 {
            ctx.notes.push(format!("shard 0: stream {what} took {:.1}s", t0.elapsed().as_secs_f64()));
        }
        t0 = std::time::Instant::now();
    };
    let corp = corpus();
    ctx.class_n("corpus-chunks", corp.len() as u64);
    let n = ctx.share(ctx.tier.pick(600_000, 10_000_000));
    let ops = || proptest::collection::vec((any::<u8>(), any::<u16>(), any::<u16>()), 1..4);
    // (a1) mutated repository grammars
    if !corp.is_empty() {
        let c2 = corp.clone();
        let strat = (0..corp.len(), ops()).prop_map(move |(i, o)| mutate(&c2[i], &o));
        ctx.run_prop(n / 4, 1, strat, |ctx, t| check_text(ctx, t, "mutated-repo-grammar"));
    lap(ctx, "mutated-repo-grammar");
        // every truncation point of the smallest chunks (by shard)
        for (k, c) in corp.iter().enumerate() {
            if c.len() < 1500 && (k as u64) % ctx.nshards == ctx.shard {
                for cut in 0..=c.len() {
                    if c.is_char_boundary(cut) {
                        if let Err(f) = check_text(ctx, &c[..cut], "truncated-repo-grammar") {
                            if ctx.report(f) {
                                return;
                            }
                        }
                    }
                }
            }
        }
    }
    // (a2) mutated generated grammars (canonical printing of valid generated grammars)
    let strat = (grammar_strategy(GenCfg::standard(EXTRAS)), ops()).prop_map(|(g, o)| mutate(&print_grammar(&g), &o));
    ctx.run_prop(n / 2, 2, strat, |ctx, t| check_text(ctx, t, "mutated-generated-grammar"));
    lap(ctx, "mutated-generated-grammar");
    // (b) token soup over the meta-grammar's dictionary
    let strat = proptest::collection::vec((0..DICT.len(), 0..GAPS.len()), 0..30).prop_map(|v| v.iter().map(|(d, g)| format!("{}{}", DICT[*d], GAPS[*g])).collect::<String>());
    ctx.run_prop(n / 4, 3, strat, |ctx, t| check_text(ctx, t, "token-soup"));
    lap(ctx, "token-soup");
    // (c) rule-shaped soup: name = { soup }
    let strat = proptest::collection::vec((0..DICT.len(), 0..GAPS.len()), 0..16).prop_map(|v| format!("r0 = {{ {} }}", v.iter().map(|(d, g)| format!("{}{}", DICT[*d], GAPS[*g])).collect::<String>()));
    ctx.run_prop(n / 4, 4, strat, |ctx, t| check_text(ctx, t, "rule-shaped-soup"));
    lap(ctx, "rule-shaped-soup");
    // (d) one or two unterminated constructs repeated up to 60 times (the shape on which backtracking compounds)
    let strat = (0..FRAGMENTS.len(), 0..FRAGMENTS.len(), 0..GAPS.len(), 1usize..60, any::<bool>(), any::<bool>()).prop_map(|(a, b, g, k, two, wrap)| {
        let mut t = String::new();
        for i in 0..k {
            t.push_str(FRAGMENTS[if two && i % 2 == 1 { b } else { a }]);
            t.push_str(GAPS[g]);
        }
        if wrap {
            format!("r0 = {{ {t} }}")
        } else {
            t
        }
    });
    ctx.run_prop(n / 16, 5, strat, |ctx, t| check_text(ctx, t, "repeated-open-construct"));
    lap(ctx, "repeated-open-construct");
    // (e) reference lattices: r_i refers to r_(i+1) twice (or to r_(i+1) and r_(i+2)) under a chosen shape, so the
    // number of reference paths doubles per level while the text grows by one line
    const SHAPES: [&str; 12] = ["(X ~ Y)?", "(X ~ Y) | \"q\"", "X | Y", "X ~ Y", "!X ~ Y", "&X ~ Y", "X? ~ Y", "(X | Y)*", "(X ~ Y)+", "X* ~ Y", "(X | \"q\") ~ Y", "PUSH(X) ~ Y"];
    const LEAVES: [&str; 6] = ["\"a\"", "\"\"", "!\"a\"", "\"a\"?", "ANY", "\"a\"*"];
    let strat = (proptest::collection::vec(0..SHAPES.len(), 1..28), 0..LEAVES.len(), any::<bool>(), 0..4usize).prop_map(|(shapes, leaf, skip, modifier)| {
        let n = shapes.len();
        let mut t = String::new();
        for (i, sh) in shapes.iter().enumerate() {
            let y = if skip && i + 2 <= n { i + 2 } else { i + 1 };
            t.push_str(&format!("r{i} = {}{{ {} }}\n", ["", "_", "@", "$"][modifier], SHAPES[*sh].replace('X', &format!("r{}", i + 1)).replace('Y', &format!("r{y}"))));
        }
        t.push_str(&format!("r{n} = {{ {} }}\n", LEAVES[leaf]));
        t
    });
    ctx.run_prop(n / 128, 6, strat, |ctx, t| check_text(ctx, t, "reference-lattice"));
    lap(ctx, "reference-lattice");
    // (f) postfix towers: one operand under 1..20 stacked postfix operators, flat (`"a"+*?{2}`) or parenthesised
    // level by level, optionally as one element of a sequence
    const POSTFIX: [&str; 8] = ["+", "+", "*", "?", "{2}", "{1,2}", "{,2}", "{2,}"];
    const OPERANDS: [&str; 5] = ["\"a\"", "'a'..'z'", "ANY", "r1", "(\"a\" | \"b\")"];
    let strat = (0..OPERANDS.len(), proptest::collection::vec(0..POSTFIX.len(), 1..20), any::<bool>(), any::<bool>()).prop_map(|(o, ops, parens, in_seq)| {
        let mut e = OPERANDS[o].to_string();
        for k in &ops {
            e = if parens { format!("({e}){}", POSTFIX[*k]) } else { format!("{e}{}", POSTFIX[*k]) };
        }
        if in_seq {
            e = format!("\"x\" ~ {e} ~ \"y\"");
        }
        format!("r0 = {{ {e} }}\nr1 = {{ \"b\" }}\n")
    });
    ctx.run_prop(n / 128, 7, strat, |ctx, t| check_text(ctx, t, "postfix-tower"));
    lap(ctx, "postfix-tower");
}

/// Unterminated or half-open constructs; stream (d) repeats one or two of them many times.
pub const FRAGMENTS: [&str; 30] = [
    "+", "a+", "/* ", "/*x", "/*/ ", "(", "[", "{", "\"", "'", "PUSH(", "PEEK[", "PEEK[1..", "r = {", "r = { (", "a ~ ", "a | ", "!", "&", "#t = ", "\"\\", "\"\\u{", "'\\", "^\"", "a{", "a{1,", "//", "///", "//!", "_{",
];

pub fn replay(case: &Value) -> Result<(), Fail> {
    let text = case["text"].as_str().expect("text");
    let mut ctx = Ctx::new("C09", Tier::Quick, 0, 0, 1);
    check_text(&mut ctx, text, "replay")
}

pub const DEF: CheckDef = CheckDef {
    id: "C09",
    rule: "Texts, not grammars: (a1) chunks of the repository's .pest files mutated at token level (delete/duplicate/swap/replace/insert from a dictionary of meta-grammar tokens incl. out-of-range numbers, malformed and out-of-range escapes, lone quotes, non-ASCII; truncation at a token or inside one; numbers replaced by 0 / 2^31 +- 1 / 2^32 +- 1 / 2^64) and every byte-truncation of the small chunks; (a2) the same mutations of canonical printings of generated valid grammars; (b) random token soup over that dictionary with random gaps/comments; (c) the same soup wrapped as `r0 = { ... }`; (d) one or two unterminated constructs (comment/paren/bracket/string/PUSH/PEEK/repetition openers, dangling operators) repeated 1..60 times; (e) reference lattices: 1..28 rules r_i = { shape(r_(i+1), r_(i+1 or i+2)) } over ten shapes (choice, sequence, predicates, optionals, repetitions, PUSH) and six leaves; (f) postfix towers: one operand under 1..20 stacked postfix operators (+ * ? {n} {n,m} {,m} {n,}), flat or parenthesised. Stated bounds: text <= 4 KiB, bracket nesting <= 200, along the deepest chain of nested postfix operators the product of the in-range repetition counts <= 128 and that product x text length <= 64 KiB (the unroller copies the repeated expression, and the restorer pass is cubic in a count applied to a self-referential expression: 800 -> 260 s), at most 14 stacked `+` (finding D23) and counts x 2^pluses <= 16384; larger cases are filtered before the call and counted under excluded_by_construction. Oracle: (time) the syntactic parse stays within 200*(len+16) combinator calls, enforced with pest's own call limit, and a text over budget is attributed by re-running it with every `/*` blanked, the validator's recursive analyses stay within 150*(len+16) steps and the optimizer's expression traversals within min(64*(len+16)*counts^2, 50M) steps (cfg hooks with step limits), and the optimized rules render to at most 64*(len+16)*counts bytes; (totality) parse_and_optimize and generator::docs::consume return under catch_unwind (worker survival = no abort); on Err the list is non-empty, every location lies in 0..=len on char boundaries with start <= end, Display and renamed_rules(rename_meta_rule) render; on Ok Display of every optimized expression renders. Non-trivial = the text gets past the meta parser (reaches consumption/validation) or its first error lies within 12 bytes of the end; distinct = distinct text.",
    assumptions: &["'bounded time' is read as a linear budget of combinator calls for the meta parser (200 per byte; largest ratio measured on texts without the known blow-up: 28); validation and optimisation time is bounded by the stated size bounds only, and a watchdog kill there is reported as inconclusive (exit 2), never as a violation"],
    floor: |t| t.pick(50_000, 500_000),
    shards: |_| 16,
    run,
    replay,
    journal: true,
    pre: None,
};
