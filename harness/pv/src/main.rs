mod fw;
mod gram;
mod inputs;
mod refsem;
mod vmrun;
mod c01;
mod c02;
mod c03;
mod c04;
mod c05;
mod c06;
mod c07;
mod c08;
mod c09;
mod c10;
mod c11;
mod c12;
mod c13;
mod c14;
mod c15;
mod c16;
mod c18;

use fw::*;

fn defs() -> Vec<CheckDef> {
    vec![c01::DEF, c02::DEF, c03::DEF, c04::DEF, c05::DEF, c06::DEF, c07::DEF, c08::DEF, c09::DEF, c10::DEF, c11::DEF, c12::DEF, c13::DEF, c14::DEF, c15::DEF, c16::DEF, c18::DEF]
}

fn arg_after(args: &[String], flag: &str) -> Option<String> {
    args.iter().position(|a| a == flag).and_then(|i| args.get(i + 1).cloned())
}

fn main() {
    let args: Vec<String> = std::env::args().collect();
    let defs = defs();
    let tier_of = |s: Option<String>| match s.as_deref() {
        Some("thorough") => Tier::Thorough,
        _ => Tier::Quick,
    };
    match args.get(1).map(|s| s.as_str()) {
        Some("check") => {
            let id = args.get(2).expect("property id");
            let Some(def) = defs.iter().find(|d| d.id == id) else {
                eprintln!("property {id} is not built into this configuration");
                std::process::exit(2);
            };
            let tier = tier_of(arg_after(&args, "--tier"));
            let seed = arg_after(&args, "--seed").and_then(|s| s.parse::<i64>().ok()).map(|v| v as u64).unwrap_or_else(env_seed);
            let ev = arg_after(&args, "--evidence");
            std::process::exit(driver_main(def, tier, seed, ev));
        }
        Some("worker") => {
            let id = args.get(2).expect("property id");
            let def = defs.iter().find(|d| d.id == id).expect("unknown property");
            let tier = tier_of(arg_after(&args, "--tier"));
            let seed: u64 = arg_after(&args, "--seed").unwrap().parse().unwrap();
            let shard: u64 = arg_after(&args, "--shard").unwrap().parse().unwrap();
            let nshards: u64 = arg_after(&args, "--nshards").unwrap().parse().unwrap();
            let out = arg_after(&args, "--out").unwrap();
            worker_main(def, tier, seed, shard, nshards, std::path::Path::new(&out));
        }
        Some("replay") => {
            let path = args.get(2).expect("replay file");
            let raw = args.iter().any(|a| a == "--raw");
            std::process::exit(replay_main(&defs, path, raw));
        }
        Some("vmrun") => {
            std::process::exit(c06::vmrun_main(args.get(2).expect("case file")));
        }
        Some("metacalls") => {
            // diagnostic: combinator calls of the meta parser per text (used to size C09's call bound)
            for f in &args[2..] {
                if let Ok(t) = std::fs::read_to_string(f) {
                    pest::verif::reset_calls();
                    let ok = pest_meta::parser::parse(pest_meta::parser::Rule::grammar_rules, &t).is_ok();
                    pest_meta::validator::verif::reset(usize::MAX);
                    pest_meta::optimizer::verif::reset_steps(usize::MAX);
                    let _ = pest_meta::parse_and_optimize(&t);
                    println!("{} {} {} {} {} {}", t.len(), pest::verif::calls(), ok, f, pest_meta::validator::verif::steps(), pest_meta::optimizer::verif::steps());
                }
            }
        }
        Some("list") => {
            for d in &defs {
                println!("{}", d.id);
            }
        }
        _ => {
            eprintln!("usage: pv check <ID> --tier quick|thorough [--seed N] | pv replay <file> | pv list");
            std::process::exit(2);
        }
    }
}
