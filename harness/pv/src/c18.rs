//! C18 — the bundled JSON grammar accepts exactly RFC 8259 JSON, and its token tree mirrors the
//! document. Oracle: a hand-written recursive-descent recogniser from the RFC's ABNF that also
//! returns the value tree with byte spans.

use crate::fw::*;
use pest::Parser;
use pest_grammars::json::{JsonParser, Rule};
use proptest::prelude::*;
use serde_json::{json, Value};

// ------------------------------- RFC 8259 recogniser ---------------------------------
#[derive(Debug, Clone, PartialEq, Eq)]
pub struct Node {
    pub kind: &'static str,
    pub start: usize,
    pub end: usize,
    pub children: Vec<Node>,
}

struct P<'a> {
    s: &'a [u8],
    i: usize,
    depth: usize,
    max_depth: usize,
    has_escape: bool,
    has_exp: bool,
}

impl P<'_> {
    fn ws(&mut self) {
        while self.i < self.s.len() && matches!(self.s[self.i], 0x20 | 0x09 | 0x0A | 0x0D) {
            self.i += 1;
        }
    }
    fn lit(&mut self, l: &str) -> bool {
        if self.s[self.i..].starts_with(l.as_bytes()) {
            self.i += l.len();
            true
        } else {
            false
        }
    }
    /// value = false / null / true / object / array / number / string ; returns the `value` node
    fn value(&mut self) -> Option<Node> {
        let start = self.i;
        let c = *self.s.get(self.i)?;
        let inner = match c {
            b'{' => self.object()?,
            b'[' => self.array()?,
            b'"' => self.string()?,
            b't' => {
                if !self.lit("true") {
                    return None;
                }
                Node { kind: "bool", start, end: self.i, children: vec![] }
            }
            b'f' => {
                if !self.lit("false") {
                    return None;
                }
                Node { kind: "bool", start, end: self.i, children: vec![] }
            }
            b'n' => {
                if !self.lit("null") {
                    return None;
                }
                Node { kind: "null", start, end: self.i, children: vec![] }
            }
            b'-' | b'0'..=b'9' => self.number()?,
            _ => return None,
        };
        Some(Node { kind: "value", start, end: self.i, children: vec![inner] })
    }
    fn object(&mut self) -> Option<Node> {
        let start = self.i;
        self.i += 1; // {
        self.depth += 1;
        self.max_depth = self.max_depth.max(self.depth);
        let mut members = vec![];
        self.ws();
        if self.s.get(self.i) == Some(&b'}') {
            self.i += 1;
        } else {
            loop {
                self.ws();
                let ps = self.i;
                if self.s.get(self.i) != Some(&b'"') {
                    return None;
                }
                let k = self.string()?;
                self.ws();
                if self.s.get(self.i) != Some(&b':') {
                    return None;
                }
                self.i += 1;
                self.ws();
                let v = self.value()?;
                members.push(Node { kind: "pair", start: ps, end: self.i, children: vec![k, v] });
                self.ws();
                match self.s.get(self.i) {
                    Some(b',') => self.i += 1,
                    Some(b'}') => {
                        self.i += 1;
                        break;
                    }
                    _ => return None,
                }
            }
        }
        self.depth -= 1;
        Some(Node { kind: "object", start, end: self.i, children: members })
    }
    fn array(&mut self) -> Option<Node> {
        let start = self.i;
        self.i += 1;
        self.depth += 1;
        self.max_depth = self.max_depth.max(self.depth);
        let mut items = vec![];
        self.ws();
        if self.s.get(self.i) == Some(&b']') {
            self.i += 1;
        } else {
            loop {
                self.ws();
                items.push(self.value()?);
                self.ws();
                match self.s.get(self.i) {
                    Some(b',') => self.i += 1,
                    Some(b']') => {
                        self.i += 1;
                        break;
                    }
                    _ => return None,
                }
            }
        }
        self.depth -= 1;
        Some(Node { kind: "array", start, end: self.i, children: items })
    }
    fn string(&mut self) -> Option<Node> {
        let start = self.i;
        self.i += 1; // quote
        loop {
            let c = *self.s.get(self.i)?;
            match c {
                b'"' => {
                    self.i += 1;
                    break;
                }
                b'\\' => {
                    self.has_escape = true;
                    let e = *self.s.get(self.i + 1)?;
                    match e {
                        b'"' | b'\\' | b'/' | b'b' | b'f' | b'n' | b'r' | b't' => self.i += 2,
                        b'u' => {
                            let h = self.s.get(self.i + 2..self.i + 6)?;
                            if !h.iter().all(|x| x.is_ascii_hexdigit()) {
                                return None;
                            }
                            self.i += 6;
                        }
                        _ => return None,
                    }
                }
                0x00..=0x1F => return None,
                _ => self.i += 1, // any other byte of a valid UTF-8 string (input is &str)
            }
        }
        Some(Node { kind: "string", start, end: self.i, children: vec![] })
    }
    fn number(&mut self) -> Option<Node> {
        let start = self.i;
        if self.s.get(self.i) == Some(&b'-') {
            self.i += 1;
        }
        match self.s.get(self.i)? {
            b'0' => self.i += 1,
            b'1'..=b'9' => {
                while self.s.get(self.i).is_some_and(|c| c.is_ascii_digit()) {
                    self.i += 1;
                }
            }
            _ => return None,
        }
        if self.s.get(self.i) == Some(&b'.') {
            // frac = "." 1*DIGIT -- a "." not followed by a digit is not part of the number
            if self.s.get(self.i + 1).is_some_and(|c| c.is_ascii_digit()) {
                self.i += 1;
                while self.s.get(self.i).is_some_and(|c| c.is_ascii_digit()) {
                    self.i += 1;
                }
            } else {
                return None;
            }
        }
        if matches!(self.s.get(self.i), Some(b'e' | b'E')) {
            let mut j = self.i + 1;
            if matches!(self.s.get(j), Some(b'+' | b'-')) {
                j += 1;
            }
            if self.s.get(j).is_some_and(|c| c.is_ascii_digit()) {
                while self.s.get(j).is_some_and(|c| c.is_ascii_digit()) {
                    j += 1;
                }
                self.i = j;
                self.has_exp = true;
            } else {
                return None;
            }
        }
        Some(Node { kind: "number", start, end: self.i, children: vec![] })
    }
}

pub struct Rfc {
    pub tree: Node,
    pub max_depth: usize,
    pub has_escape: bool,
    pub has_exp: bool,
}

/// JSON-text = ws value ws
pub fn rfc8259(s: &str) -> Option<Rfc> {
    let mut p = P { s: s.as_bytes(), i: 0, depth: 0, max_depth: 0, has_escape: false, has_exp: false };
    p.ws();
    let v = p.value()?;
    p.ws();
    if p.i != s.len() {
        return None;
    }
    Some(Rfc { tree: v, max_depth: p.max_depth, has_escape: p.has_escape, has_exp: p.has_exp })
}

fn flatten_node(n: &Node, out: &mut Vec<(bool, String, usize)>) {
    out.push((true, n.kind.to_string(), n.start));
    for c in &n.children {
        flatten_node(c, out);
    }
    out.push((false, n.kind.to_string(), n.end));
}

fn real_tokens(s: &str) -> Result<Option<Vec<(bool, String, usize)>>, String> {
    catch(|| match JsonParser::parse(Rule::json, s) {
        Ok(pairs) => {
            let mut out = vec![];
            for t in pairs.tokens() {
                match t {
                    pest::Token::Start { rule, pos } => out.push((true, format!("{rule:?}"), pos.pos())),
                    pest::Token::End { rule, pos } => out.push((false, format!("{rule:?}"), pos.pos())),
                }
            }
            Some(out)
        }
        Err(_) => None,
    })
}

pub fn check_doc(ctx: &mut Ctx, s: &str, origin: &str, valid_parent: bool) -> Result<(), Fail> {
    ctx.eval();
    let want = rfc8259(s);
    let got = real_tokens(s).map_err(|p| Fail::new("c18:panic", format!("JsonParser panicked on {s:?}: {p}"), json!({"input": s})))?;
    match (&want, &got) {
        (Some(r), Some(toks)) => {
            let mut exp = vec![(true, "json".to_string(), 0)];
            flatten_node(&r.tree, &mut exp);
            exp.push((true, "EOI".to_string(), s.len()));
            exp.push((false, "EOI".to_string(), s.len()));
            exp.push((false, "json".to_string(), s.len()));
            if exp != *toks {
                return Err(Fail::new("c18:tree", format!("input {s:?}: token tree {toks:?} differs from the document structure {exp:?}"), json!({"input": s})));
            }
            ctx.class(&format!("{origin}:accepted"));
            if r.max_depth >= 2 && (r.has_escape || r.has_exp) {
                ctx.nontrivial(s);
                ctx.sample(|| json!({"input": s, "verdict": "valid", "origin": origin}));
            }
            Ok(())
        }
        (None, None) => {
            ctx.class(&format!("{origin}:rejected"));
            if valid_parent {
                ctx.nontrivial(s);
                ctx.sample(|| json!({"input": s, "verdict": "invalid (one edit away from a valid document)", "origin": origin}));
            }
            Ok(())
        }
        (Some(_), None) => Err(Fail::new("c18:rejects-valid", format!("input {s:?} is RFC 8259 JSON but JsonParser rejects it"), json!({"input": s}))),
        (None, Some(_)) => Err(Fail::new("c18:accepts-invalid", format!("input {s:?} is not RFC 8259 JSON but JsonParser accepts it"), json!({"input": s}))),
    }
}

// ------------------------------- generators ---------------------------------
#[derive(Clone, Debug)]
pub enum J {
    Null,
    Bool(bool),
    Num(String),
    Str(String),
    Arr(Vec<J>),
    Obj(Vec<(String, J)>),
}

fn ws_strategy() -> impl Strategy<Value = String> {
    prop_oneof![6 => Just(String::new()), 2 => Just(" ".to_string()), 1 => Just("\n".to_string()), 1 => Just("\t \r\n".to_string()), 1 => Just("\r".to_string())]
}

fn string_body() -> impl Strategy<Value = String> {
    let piece = prop_oneof![
        6 => "[a-zA-Z0-9 _/.:-]{0,4}",
        1 => Just("\\\"".to_string()),
        1 => Just("\\\\".to_string()),
        1 => Just("\\/".to_string()),
        1 => prop_oneof![Just("\\b"), Just("\\f"), Just("\\n"), Just("\\r"), Just("\\t")].prop_map(|s| s.to_string()),
        1 => "[0-9a-fA-F]{4}".prop_map(|h| format!("\\u{h}")),
        1 => Just("é€😀".to_string()),
        1 => Just("\u{7f}".to_string()),
        1 => Just("'".to_string()),
    ];
    proptest::collection::vec(piece, 0..4).prop_map(|v| v.concat())
}

fn number_strategy() -> impl Strategy<Value = String> {
    (any::<bool>(), prop_oneof![Just("0".to_string()), "[1-9][0-9]{0,3}"], proptest::option::of("[0-9]{1,3}"), proptest::option::of((prop_oneof![Just("e"), Just("E")], prop_oneof![Just(""), Just("+"), Just("-")], "[0-9]{1,2}")))
        .prop_map(|(neg, int, frac, exp)| {
            let mut s = String::new();
            if neg {
                s.push('-');
            }
            s.push_str(&int);
            if let Some(f) = frac {
                s.push('.');
                s.push_str(&f);
            }
            if let Some((e, sign, d)) = exp {
                s.push_str(e);
                s.push_str(sign);
                s.push_str(&d);
            }
            s
        })
}

fn j_strategy() -> BoxedStrategy<J> {
    let leaf = prop_oneof![
        1 => Just(J::Null),
        1 => any::<bool>().prop_map(J::Bool),
        3 => number_strategy().prop_map(J::Num),
        3 => string_body().prop_map(J::Str),
    ];
    leaf.prop_recursive(6, 40, 4, |inner| {
        prop_oneof![
            proptest::collection::vec(inner.clone(), 0..4).prop_map(J::Arr),
            proptest::collection::vec((string_body(), inner), 0..4).prop_map(J::Obj),
        ]
    })
    .boxed()
}

/// serialise with whitespace taken from `ws` (cyclically) at every legal gap
fn ser(j: &J, ws: &[String], k: &mut usize, out: &mut String) {
    let mut gap = |out: &mut String, k: &mut usize| {
        out.push_str(&ws[*k % ws.len()]);
        *k += 1;
    };
    match j {
        J::Null => out.push_str("null"),
        J::Bool(b) => out.push_str(if *b { "true" } else { "false" }),
        J::Num(n) => out.push_str(n),
        J::Str(s) => {
            out.push('"');
            out.push_str(s);
            out.push('"');
        }
        J::Arr(v) => {
            out.push('[');
            gap(out, k);
            for (i, x) in v.iter().enumerate() {
                if i > 0 {
                    out.push(',');
                    gap(out, k);
                }
                ser(x, ws, k, out);
                gap(out, k);
            }
            out.push(']');
        }
        J::Obj(v) => {
            out.push('{');
            gap(out, k);
            for (i, (key, x)) in v.iter().enumerate() {
                if i > 0 {
                    out.push(',');
                    gap(out, k);
                }
                out.push('"');
                out.push_str(key);
                out.push('"');
                gap(out, k);
                out.push(':');
                gap(out, k);
                ser(x, ws, k, out);
                gap(out, k);
            }
            out.push('}');
        }
    }
}

fn doc_strategy() -> impl Strategy<Value = String> {
    (j_strategy(), proptest::collection::vec(ws_strategy(), 1..6)).prop_map(|(j, ws)| {
        let mut out = String::new();
        let mut k = 0;
        out.push_str(&ws[0]);
        k += 1;
        ser(&j, &ws, &mut k, &mut out);
        out.push_str(&ws[k % ws.len()]);
        out
    })
}

const JSON_ALPHABET: [&str; 34] = [
    "{", "}", "[", "]", ",", ":", "\"", "\\", "0", "1", "9", "-", "+", ".", "e", "E", "t", "r", "u", "true", "false", "null", " ", "\n", "\t", "\r", "\u{0}", "\u{1f}", "\u{b}", "\u{a0}", "\\u", "a", "/", "\u{2028}",
];

/// one edit of a document: delete / insert / replace at a char position, or truncate
fn edit(doc: &str, at: u16, what: u16, kind: u8) -> String {
    let chars: Vec<char> = doc.chars().collect();
    let pos = (at as usize * (chars.len() + 1)) >> 16;
    let tok = JSON_ALPHABET[(what as usize * JSON_ALPHABET.len()) >> 16];
    let mut out: String = chars[..pos.min(chars.len())].iter().collect();
    match kind % 6 {
        5 => {
            // flip the ASCII case of the letter at or after pos (true/True, \u/\U, e/E, \n/\N, hex digits)
            match chars.iter().enumerate().skip(pos).find(|(_, c)| c.is_ascii_alphabetic()) {
                Some((i, c)) => {
                    out.extend(chars[pos..i].iter());
                    out.push(if c.is_ascii_lowercase() { c.to_ascii_uppercase() } else { c.to_ascii_lowercase() });
                    out.extend(chars[i + 1..].iter());
                }
                None => out.extend(chars[pos.min(chars.len())..].iter()),
            }
        }
        0 => {
            // delete
            if pos < chars.len() {
                out.extend(chars[pos + 1..].iter());
            }
        }
        1 | 2 => {
            out.push_str(tok);
            out.extend(chars[pos.min(chars.len())..].iter());
        }
        3 => {
            out.push_str(tok);
            if pos < chars.len() {
                out.extend(chars[pos + 1..].iter());
            }
        }
        _ => {} // truncate
    }
    out
}

pub fn run(ctx: &mut Ctx) {
    let n = ctx.share(ctx.tier.pick(150_000, 5_000_000));
    // (a) valid documents and (b) their one-edit neighbours
    let strat = (doc_strategy(), proptest::collection::vec((any::<u16>(), any::<u16>(), any::<u8>()), 3));
    ctx.run_prop(n, 1, strat, |ctx, (doc, edits)| {
        check_doc(ctx, doc, "generated-valid", false)?;
        let parent_ok = rfc8259(doc).is_some();
        for (at, what, kind) in edits {
            let m = edit(doc, *at, *what, *kind);
            check_doc(ctx, &m, "one-edit", parent_ok)?;
        }
        Ok(())
    });
    // (c) random token soup over JSON's alphabet
    let soup = proptest::collection::vec(0..JSON_ALPHABET.len(), 0..12).prop_map(|v| v.iter().map(|i| JSON_ALPHABET[*i]).collect::<String>());
    ctx.run_prop(n / 2, 2, soup, |ctx, s| check_doc(ctx, s, "token-soup", false));
    // (d) fixed near-miss catalogue (every shard; cheap)
    if ctx.shard == 0 {
        for s in [
            "01", "-", "1.", ".5", "1e", "1e+", "-01", "+1", "0x10", "1.e3", "[1,]", "[,1]", "[1,,2]", "{\"a\":1,}", "{,}", "{\"a\" 1}", "{\"a\":}", "{a:1}", "\"\u{0}\"", "\"\u{1f}\"",
            "\"\t\"", "\"\\x\"", "\"\\u12\"", "\"\\u12G4\"", "\"abc", "tru", "nul", "True", "[", "]", "{", "[1", "1 2", "1,", "\u{a0}1", "\u{feff}1", "", " ", "\"\\\"", "'a'", "[1]]", "{}{}", "nullx",
            "0", "-0", "0.0", "1E5", "1e-0", "\"\u{7f}\"", "\"\\u0000\"", " \t\r\n[ ] \n", "{\"\":{\"\":[]}}", "\"\\/\"", "\"\\U0041\"", "\"\\N\"", "\"\\u00e9\"", "\"\\u00E9\"", "NULL", "FALSE", "1E+2", "\"\\B\"",
        ] {
            if let Err(f) = check_doc(ctx, s, "catalogue", false) {
                ctx.report(f);
            }
        }
    }
}

pub fn replay(case: &Value) -> Result<(), Fail> {
    let s = case["input"].as_str().expect("input");
    let mut ctx = Ctx::new("C18", Tier::Quick, 0, 0, 1);
    check_doc(&mut ctx, s, "replay", false)
}

pub const DEF: CheckDef = CheckDef {
    id: "C18",
    rule: "(a) documents generated from RFC 8259's ABNF (all value kinds, nesting <= 6 levels / 40 nodes, every escape form, numbers from every branch of the number production, whitespace from the four legal characters at every legal gap); (b) three one-edit neighbours of each (delete / insert / replace a token from JSON's alphabet incl. control characters, other Unicode spaces, signs; truncate; flip the case of one letter); (c) random token soup over JSON's alphabet; (d) a fixed catalogue of classic near-misses. Oracle: a hand-written RFC 8259 recursive-descent recogniser returning the value tree with byte spans; JsonParser::parse(Rule::json, s) must accept iff it does, and on acceptance the token stream must equal json(value(kind...)..., EOI) with one pair per value/object/pair/array/string/number/bool/null and exact spans. Non-trivial = accepted document with nesting >= 2 and an escape or exponent, or a rejected document one edit away from an accepted one; distinct = distinct input string.",
    assumptions: &["the recogniser in harness/pv/src/c18.rs is the reading of RFC 8259 (inputs are Rust &str, so invalid UTF-8 is out of scope)"],
    floor: |t| t.pick(20_000, 200_000),
    shards: |_| 16,
    run,
    replay,
    journal: false,
    pre: None,
};
