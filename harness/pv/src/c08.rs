//! C08 — failure reports point at the furthest failure with sound expectations. The cfg trace
//! hook gives the forest of `rule()` invocations of the real run; the statement is evaluated over
//! that forest and compared with the reported error.

use crate::c01::{case_json, prepare, vm_call_limit};
use crate::fw::*;
use crate::gram::*;
use crate::inputs::*;
use crate::refsem::{self, Outcome};
use crate::vmrun::*;
use pest::verif::TraceEvent;
use pest::{Atomicity, Lookahead};
use serde_json::{json, Value};

#[derive(Debug, Clone)]
pub struct Inv {
    pub rule: String,
    pub pos: usize,
    pub look: Lookahead,
    pub atom: Atomicity,
    pub ok: bool,
    pub depth: usize,
}

/// Flat list of invocations in entry order plus, for the simulation, the event order.
pub fn invocations(events: &[TraceEvent]) -> Result<(Vec<Inv>, Vec<(bool, usize)>), String> {
    let mut invs: Vec<Inv> = vec![];
    let mut stack: Vec<usize> = vec![];
    let mut order: Vec<(bool, usize)> = vec![];
    // Polarity and atomicity are recomputed here from the nesting of lookahead()/atomic() calls
    // (the "#&", "#!", "#@", "#$", "#~" control events) rather than read from the parser state, so
    // that a wrong polarity or atomicity *in the implementation* is not trusted by the oracle:
    // a positive predicate keeps the polarity (None becomes Positive), a negative one flips it.
    let mut look: Vec<Lookahead> = vec![Lookahead::None];
    let mut atom: Vec<Atomicity> = vec![Atomicity::NonAtomic];
    for e in events {
        if let Some(label) = e.rule.strip_prefix('#') {
            match (label, e.enter) {
                ("&", true) => {
                    let cur = *look.last().unwrap();
                    look.push(match cur {
                        Lookahead::None | Lookahead::Positive => Lookahead::Positive,
                        Lookahead::Negative => Lookahead::Negative,
                    });
                }
                ("!", true) => {
                    let cur = *look.last().unwrap();
                    look.push(match cur {
                        Lookahead::None | Lookahead::Positive => Lookahead::Negative,
                        Lookahead::Negative => Lookahead::Positive,
                    });
                }
                ("&", false) | ("!", false) => {
                    if look.len() < 2 {
                        return Err("unbalanced lookahead events".into());
                    }
                    look.pop();
                }
                ("@", true) => atom.push(Atomicity::Atomic),
                ("$", true) => atom.push(Atomicity::CompoundAtomic),
                ("~", true) => atom.push(Atomicity::NonAtomic),
                (_, false) => {
                    if atom.len() < 2 {
                        return Err("unbalanced atomic events".into());
                    }
                    atom.pop();
                }
                _ => return Err(format!("unknown control event {label}")),
            }
            continue;
        }
        let rule = e.rule.trim_matches('"').to_string();
        if e.enter {
            let id = invs.len();
            invs.push(Inv { rule, pos: e.pos, look: *look.last().unwrap(), atom: *atom.last().unwrap(), ok: false, depth: stack.len() });
            stack.push(id);
            order.push((true, id));
        } else {
            let id = stack.pop().ok_or("exit without enter")?;
            if invs[id].rule != rule {
                return Err(format!("trace exit of {rule} closes {}", invs[id].rule));
            }
            invs[id].ok = e.ok;
            order.push((false, id));
        }
    }
    // a limit-refused or panicking run may leave entries open; the caller skips those runs
    if !stack.is_empty() {
        return Err("unbalanced trace".into());
    }
    Ok((invs, order))
}

#[derive(Clone, Copy, PartialEq, Eq, Debug)]
enum Kind {
    Positive,
    Negative,
    NotReportable,
}

fn kind(i: &Inv) -> Kind {
    if i.atom == Atomicity::Atomic {
        return Kind::NotReportable; // inside an atomic rule's interior
    }
    if !i.ok && i.look != Lookahead::Negative {
        Kind::Positive
    } else if i.ok && i.look == Lookahead::Negative {
        Kind::Negative
    } else {
        Kind::NotReportable
    }
}

pub struct Verdict {
    pub f: usize,
    pub n_reportable_at_f: usize,
    pub negative_at_f: bool,
    pub lenient: bool,
}

pub fn judge(events: &[TraceEvent], pos: usize, positives: &[String], negatives: &[String], strict_both: bool) -> Result<Verdict, (String, String)> {
    let (invs, order) = invocations(events).map_err(|e| ("c08:trace".to_string(), e))?;
    let f = invs.iter().filter(|i| kind(i) != Kind::NotReportable).map(|i| i.pos).max().unwrap_or(0);
    if pos != f {
        return Err(("c08:position".into(), format!("reported position {pos}, but the furthest position at which a reportable rule failed (or matched under negation) is {f}")));
    }
    let at_f: Vec<&Inv> = invs.iter().filter(|i| i.pos == f && kind(i) != Kind::NotReportable).collect();
    for p in positives {
        if !at_f.iter().any(|i| kind(i) == Kind::Positive && i.rule == *p) {
            return Err(("c08:unsound-expected".into(), format!("`{p}` is listed as expected at {f}, but no reportable invocation of it failed there")));
        }
    }
    for n in negatives {
        if !at_f.iter().any(|i| kind(i) == Kind::Negative && i.rule == *n) {
            return Err(("c08:unsound-unexpected".into(), format!("`{n}` is listed as unexpected at {f}, but no reportable invocation of it matched there under negation")));
        }
    }
    for (what, l) in [("expected", positives), ("unexpected", negatives)] {
        if l.windows(2).any(|w| w[0] >= w[1]) {
            return Err(("c08:not-sorted-unique".into(), format!("the {what} list {l:?} is not strictly sorted")));
        }
    }
    if at_f.is_empty() && !(positives.is_empty() && negatives.is_empty()) {
        return Err(("c08:unsound-expected".into(), "rules are reported although no reportable rule was tried".into()));
    }
    // replacement rule, evaluated over the invocations that start at F, in execution order
    let mut lp: Vec<String> = vec![];
    let mut ln: Vec<String> = vec![];
    let mut saved: std::collections::HashMap<usize, (usize, usize)> = Default::default();
    let mut neg_parent_with_children = false;
    for (enter, id) in &order {
        let i = &invs[*id];
        if i.pos != f {
            continue;
        }
        if *enter {
            saved.insert(*id, (lp.len(), ln.len()));
        } else {
            let k = kind(i);
            if k == Kind::NotReportable {
                continue;
            }
            let (ip, inn) = saved[id];
            let added = (lp.len() + ln.len()).saturating_sub(ip + inn);
            if k == Kind::Negative && added >= 1 {
                // the statement's replacement sentence speaks about *failing* rules; here a rule
                // matched under negation had rules tried inside it at F
                neg_parent_with_children = true;
            }
            if lp.len() + ln.len() > ip + inn && added == 1 {
                continue; // exactly one rule was tried inside it at this position: that one is reported
            }
            lp.truncate(ip);
            ln.truncate(inn);
            if k == Kind::Positive {
                lp.push(i.rule.clone());
            } else {
                ln.push(i.rule.clone());
            }
        }
    }
    lp.sort();
    lp.dedup();
    ln.sort();
    ln.dedup();
    if !neg_parent_with_children || strict_both {
        if lp != positives || ln != negatives {
            return Err((
                "c08:replacement".into(),
                format!("reported expected {positives:?} / unexpected {negatives:?}; reporting each failing rule in place of the rules tried inside it at {f} (unless exactly one was tried) gives expected {lp:?} / unexpected {ln:?}"),
            ));
        }
    } else {
        // negation involved: only require that each reported entry is one the recursion can produce
        for p in positives {
            if !lp.contains(p) && !at_f.iter().any(|i| kind(i) == Kind::Positive && i.rule == *p) {
                return Err(("c08:replacement".into(), format!("`{p}` cannot result from the replacement rule at {f}")));
            }
        }
    }
    Ok(Verdict { f, n_reportable_at_f: at_f.len(), negative_at_f: at_f.iter().any(|i| kind(i) == Kind::Negative), lenient: neg_parent_with_children })
}

pub fn check_one(text: &str, vm: &pest_vm::Vm, rule: &str, input: &str, limit: usize) -> Result<Option<Verdict>, Fail> {
    pest::verif::trace_start();
    let out = run_vm_limited(vm, rule, input, limit);
    let events = pest::verif::trace_take();
    let VmOut::Err { pos, positives, negatives, custom: None } = out else { return Ok(None) };
    match judge(&events, pos, &positives, &negatives, std::env::var_os("VERIF_C08_STRICT").is_some()) {
        Ok(v) => Ok(Some(v)),
        Err((sig, msg)) if sig == "c08:trace" => {
            let _ = msg;
            Ok(None)
        }
        Err((sig, msg)) => Err(Fail::new(sig, format!("grammar:\n{text}rule {rule} input {input:?}: error at {pos} expected {positives:?} unexpected {negatives:?}: {msg}"), case_json(text, rule, input))),
    }
}

fn check_case(ctx: &mut Ctx, g: &Gram, specs: &[InputSpec]) -> Result<(), Fail> {
    let Some(p) = prepare(ctx, g)? else { return Ok(()) };
    let alpha = alphabet(&p.cg);
    for rule in &p.rules {
        for spec in specs {
            let input = realise(&p.cg, rule, spec, &alpha);
            let (model, facts) = refsem::run(&p.cg, rule, &input);
            if !matches!(model, Outcome::NoMatch) {
                continue;
            }
            ctx.inflight(&case_json(&p.text, rule, &input));
            if let Some(v) = check_one(&p.text, &p.vm, rule, &input, vm_call_limit(facts.steps))? {
                ctx.eval();
                if v.f > 0 {
                    ctx.class("failure-past-position-0");
                }
                ctx.class(if v.lenient { "replacement:soundness-only(negated parent)" } else { "replacement:exact" });
                if (v.f > 0 && v.n_reportable_at_f >= 2) || v.negative_at_f {
                    ctx.nontrivial(&(p.text.as_str(), rule.as_str(), input.as_str()));
                    if v.negative_at_f {
                        ctx.class("nt:negative-attempt-at-F");
                    }
                    let (t, r, i) = (p.text.clone(), rule.clone(), input.clone());
                    ctx.sample(|| json!({"grammar": t, "rule": r, "input": i, "F": v.f, "reportable_attempts_at_F": v.n_reportable_at_f}));
                }
            }
        }
    }
    Ok(())
}

pub fn run(ctx: &mut Ctx) {
    use proptest::prelude::*;
    let mut cfg = GenCfg::standard(EXTRAS);
    cfg.max_rules = 5;
    let n = ctx.share(ctx.tier.pick(200_000, 4_000_000));
    // kinds 2 (edited derivations) and 3 (random) fail most often: bias the specs
    let spec = (prop_oneof![Just(2u8), Just(2u8), Just(3u8), Just(1u8)], proptest::collection::vec(any::<u16>(), 4..40)).prop_map(|(kind, choices)| InputSpec { kind, choices });
    let strat = (grammar_strategy(cfg), proptest::collection::vec(spec, 10));
    ctx.run_prop(n, 1, strat, |ctx, (g, specs)| check_case(ctx, g, specs));
}

pub fn replay(case: &Value) -> Result<(), Fail> {
    let text = case["grammar"].as_str().expect("grammar");
    let rule = case["rule"].as_str().expect("rule");
    let input = case["input"].as_str().expect("input");
    let Ok(c) = compile(text) else { return Ok(()) };
    let vm = pest_vm::Vm::new(c.opt);
    check_one(text, &vm, rule, input, 5_000_000).map(|_| ())
}

pub const DEF: CheckDef = CheckDef {
    id: "C08",
    rule: "C01's grammar generator x every rule x 10 inputs biased to edited derivations and random strings, restricted to parses the reference evaluator says fail; VM back-end. Observation: the cfg trace hook records every rule(), lookahead() and atomic() call of the real run; look-ahead polarity and atomicity of each rule invocation are recomputed by the harness from that nesting (not read from the parser state). Oracle, an executable reading of the statement over that forest: reportable attempt = invocation outside an atomic interior that failed with polarity != negative (expected) or matched under negative polarity (unexpected); F = furthest start position of a reportable attempt (0 if none). Required unconditionally: reported position = F; every listed rule has a matching reportable attempt at F; both lists strictly sorted. Required as exact equality of both lists unless a rule that matched under negation itself had rules tried inside it at F (the replacement sentence speaks about failing rules; there only producibility is required): the lists equal the result of reporting each failing rule in place of the rules tried inside it at F unless exactly one was tried (counted by attempts). Non-trivial = F > 0 with >= 2 reportable attempts at F, or a negative attempt at F; distinct = distinct (grammar, rule, input).",
    assumptions: &["silent rules never reach rule() and so are never reportable; the generated back-end is compared with the VM by C02, which makes this result carry over"],
    floor: |t| t.pick(50_000, 500_000),
    shards: |_| 16,
    run,
    replay,
    journal: true,
    pre: None,
};
