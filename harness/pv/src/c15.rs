//! C15 — detailed error tracking is observationally transparent: set_error_detail(false) vs
//! (true) on the same parse give the same outcome; the extra attempt information is well-formed
//! and the help message derived from it renders.

use crate::c01::{case_json, prepare, vm_call_limit};
use crate::fw::*;
use crate::gram::*;
use crate::inputs::*;
use crate::refsem::{self, Outcome};
use crate::vmrun::*;
use pest::error::{Error, ErrorVariant, InputLocation, LineColLocation};
use pest_vm::Vm;
use serde_json::{json, Value};

#[derive(Debug, PartialEq, Eq, Clone)]
enum Obs {
    Ok(Vec<(bool, String, usize)>),
    Err { pos: usize, lc: (usize, usize), positives: Vec<String>, negatives: Vec<String>, custom: Option<String> },
}

struct Detail {
    has_attempts: bool,
    max_position: usize,
    n_stacks: usize,
    n_expected: usize,
    n_unexpected: usize,
    help_rendered: Option<String>,
}

fn observe(vm: &Vm, rule: &str, input: &str, detail: bool, limit: usize) -> Result<(Obs, Option<Detail>), String> {
    pest::set_error_detail(detail);
    pest::set_call_limit(std::num::NonZeroUsize::new(limit));
    let r = catch(|| match vm.parse(rule, input) {
        Ok(pairs) => (Obs::Ok(flatten_pairs(pairs).into_iter().map(|t| (t.start, t.rule, t.pos)).collect()), None),
        Err(e) => {
            let d = detail_of(&e, input);
            (obs_of_err(&e), Some(d))
        }
    });
    pest::set_call_limit(None);
    pest::set_error_detail(false);
    r
}

fn obs_of_err(e: &Error<&str>) -> Obs {
    let pos = match e.location {
        InputLocation::Pos(p) => p,
        InputLocation::Span((a, _)) => a,
    };
    let lc = match e.line_col {
        LineColLocation::Pos(x) => x,
        LineColLocation::Span(x, _) => x,
    };
    match &e.variant {
        ErrorVariant::ParsingError { positives, negatives } => Obs::Err {
            pos,
            lc,
            positives: positives.iter().map(|s| s.to_string()).collect(),
            negatives: negatives.iter().map(|s| s.to_string()).collect(),
            custom: None,
        },
        ErrorVariant::CustomError { message } => Obs::Err { pos, lc, positives: vec![], negatives: vec![], custom: Some(message.clone()) },
    }
}

fn detail_of(e: &Error<&str>, input: &str) -> Detail {
    match e.parse_attempts() {
        None => Detail { has_attempts: false, max_position: 0, n_stacks: 0, n_expected: 0, n_unexpected: 0, help_rendered: None },
        Some(a) => {
            let exp = a.expected_tokens();
            let unexp = a.unexpected_tokens();
            let stacks = a.call_stacks();
            let help = e
                .parse_attempts_error(input, &(Box::new(|r: &&str| Some(format!("rule {r}"))) as pest::error::RuleToMessageFn<&str>), &(Box::new(|s: String| s == " " || s == "\n") as pest::error::IsWhitespaceFn))
                .map(|h| format!("{h}"));
            // also render every token
            for t in exp.iter().chain(unexp.iter()) {
                let _ = format!("{t}");
            }
            let _ = format!("{e}");
            Detail { has_attempts: true, max_position: a.max_position, n_stacks: stacks.len(), n_expected: exp.len(), n_unexpected: unexp.len(), help_rendered: help }
        }
    }
}

pub fn check_one(text: &str, vm: &Vm, rule: &str, input: &str, limit: usize) -> Result<Option<(bool, usize, usize)>, Fail> {
    let off = observe(vm, rule, input, false, limit);
    let on = observe(vm, rule, input, true, limit);
    let (off_obs, _) = match off {
        Ok(x) => x,
        Err(_) => return Ok(None), // panics without detail (empty-stack POP) are outside this property
    };
    let (on_obs, on_detail) = match on {
        Ok(x) => x,
        Err(p) => {
            return Err(Fail::new(
                "c15:panic-with-detail",
                format!("grammar:\n{text}rule {rule} input {input:?}: the parse panics only with error detail on: {p}"),
                case_json(text, rule, input),
            ))
        }
    };
    if off_obs != on_obs {
        return Err(Fail::new(
            "c15:outcome-differs",
            format!("grammar:\n{text}rule {rule} input {input:?}: detail off gives {off_obs:?}, detail on gives {on_obs:?}"),
            case_json(text, rule, input),
        ));
    }
    if let (Obs::Err { custom: None, .. }, Some(d)) = (&on_obs, &on_detail) {
        if !d.has_attempts {
            return Err(Fail::new("c15:no-attempts", format!("grammar:\n{text}rule {rule} input {input:?}: error detail on, but parse_attempts() is None"), case_json(text, rule, input)));
        }
        if d.max_position > input.len() || !input.is_char_boundary(d.max_position) {
            return Err(Fail::new(
                "c15:max-position",
                format!("grammar:\n{text}rule {rule} input {input:?}: recorded max_position {} is not a char boundary inside the input", d.max_position),
                case_json(text, rule, input),
            ));
        }
        if d.help_rendered.is_none() {
            return Err(Fail::new("c15:no-help", format!("grammar:\n{text}rule {rule} input {input:?}: parse_attempts_error returned None"), case_json(text, rule, input)));
        }
        return Ok(Some((true, d.n_stacks, d.n_expected + d.n_unexpected)));
    }
    Ok(Some((false, 0, 0)))
}

pub fn check_case(ctx: &mut Ctx, g: &Gram, specs: &[InputSpec]) -> Result<(), Fail> {
    let Some(p) = prepare(ctx, g)? else { return Ok(()) };
    let alpha = alphabet(&p.cg);
    for rule in &p.rules {
        for spec in specs {
            let input = realise(&p.cg, rule, spec, &alpha);
            let (model, facts) = refsem::run(&p.cg, rule, &input);
            if matches!(model, Outcome::Diverges(_) | Outcome::Undefined(_)) {
                ctx.class("skipped:undefined-or-diverges");
                continue;
            }
            ctx.inflight(&case_json(&p.text, rule, &input));
            ctx.evals_n(2);
            match check_one(&p.text, &p.vm, rule, &input, vm_call_limit(facts.steps))? {
                None => ctx.class("skipped:panics-without-detail"),
                Some((failing, stacks, toks)) => {
                    if failing {
                        ctx.class("failing-parse");
                        if stacks >= 2 || toks >= 2 {
                            ctx.nontrivial(&(p.text.as_str(), rule.as_str(), input.as_str()));
                            if stacks >= 4 {
                                ctx.class("nt:>=4-call-stacks");
                            }
                            let (t, r, i) = (p.text.clone(), rule.clone(), input.clone());
                            ctx.sample(|| json!({"grammar": t, "rule": r, "input": i, "call_stacks": stacks, "tokens_recorded": toks}));
                        }
                    } else {
                        ctx.class("successful-parse");
                    }
                }
            }
        }
    }
    Ok(())
}

/// Many tiny rules and rules that are wide choices of references: several call stacks at the
/// furthest position and >= 4 failing children under one rule (the collapse threshold).
fn wide_choice_grammar() -> proptest::strategy::BoxedStrategy<Gram> {
    use proptest::prelude::*;
    let lit = prop_oneof![
        12 => prop_oneof![Just("a"), Just("b"), Just("c"), Just("é"), Just("ab"), Just("1")].prop_map(|s| GE::Str(s.to_string())),
        // long literals with multi-byte text around byte 32 (messages that clip or slice tokens)
        1 => (24usize..36, any::<bool>()).prop_map(|(n, ins)| {
            let s = format!("{}éé€ß", "x".repeat(n));
            if ins { GE::Insens(s) } else { GE::Str(s) }
        }),
    ];
    let leafrule = prop_oneof![
        4 => lit.clone(),
        1 => (lit.clone(), lit.clone()).prop_map(|(a, b)| GE::Seq(Box::new(a), Box::new(b))),
        1 => Just(GE::Range('a', 'c')),
        1 => Just(GE::Insens("Ab".into())),
        1 => lit.clone().prop_map(|a| GE::Neg(Box::new(a))),
    ];
    (proptest::collection::vec(leafrule, 5..9), proptest::collection::vec(proptest::collection::vec(any::<u8>(), 2..7), 1..4), any::<bool>())
        .prop_map(|(leaves, choices, eoi)| {
            let nl = leaves.len();
            let nc = choices.len();
            let mut g = Gram { rules: vec![] };
            // choice rules first (they refer forward to leaves and to later choice rules)
            for (ci, refs) in choices.iter().enumerate() {
                let mut it = refs.iter().map(|r| {
                    let span = nl + (nc - ci - 1);
                    GE::Ref((nc.min(ci + 1) + (*r as usize % span.max(1))).min(nc + nl - 1) as u8)
                });
                let mut e = it.next().unwrap();
                for x in it {
                    e = GE::Choice(Box::new(e), Box::new(x));
                }
                if ci == 0 {
                    let tail = if eoi { GE::Builtin("EOI") } else { GE::Str("c".into()) };
                    e = GE::Seq(Box::new(GE::Opt(Box::new(GE::Str("a".into())))), Box::new(GE::Seq(Box::new(e), Box::new(tail))));
                }
                g.rules.push(GRule { name: format!("r{ci}"), ty: if ci % 3 == 2 { Ty::Silent } else { Ty::Normal }, expr: e });
            }
            for (li, e) in leaves.into_iter().enumerate() {
                g.rules.push(GRule { name: format!("r{}", nc + li), ty: Ty::Normal, expr: e });
            }
            repair(&mut g);
            g
        })
        .boxed()
}

pub fn run(ctx: &mut Ctx) {
    {
        let n = ctx.share(ctx.tier.pick(60_000, 1_000_000));
        let strat = (wide_choice_grammar(), proptest::collection::vec(spec_strategy(), 8));
        ctx.run_prop(n, 2, strat, |ctx, (g, specs)| {
            ctx.class("stream:wide-choice");
            check_case(ctx, g, specs)
        });
    }
    let cfg = GenCfg::standard(EXTRAS);
    let n = ctx.share(ctx.tier.pick(200_000, 4_000_000));
    let strat = (grammar_strategy(cfg), proptest::collection::vec(spec_strategy(), 6));
    ctx.run_prop(n, 1, strat, |ctx, (g, specs)| check_case(ctx, g, specs));
}

pub fn replay(case: &Value) -> Result<(), Fail> {
    let text = case["grammar"].as_str().expect("grammar");
    let rule = case["rule"].as_str().expect("rule");
    let input = case["input"].as_str().expect("input");
    let Ok(c) = compile(text) else { return Ok(()) };
    let vm = Vm::new(c.opt);
    check_one(text, &vm, rule, input, 5_000_000).map(|_| ())
}

pub const DEF: CheckDef = CheckDef {
    id: "C15",
    rule: "C01's grammar/input generators (accepted grammars x every rule x 6 inputs; successes and failures alike) x {set_error_detail(false), set_error_detail(true)} on the same VM parse. Oracle (metamorphic): identical outcome (token stream, or error position, line/column, expected and unexpected rule lists) and no panic with detail on; for failing detailed runs parse_attempts() is Some, max_position is a char boundary within the input, expected_tokens/unexpected_tokens/call_stacks return and render, and parse_attempts_error(...) yields an error whose Display renders. Non-trivial = failing parse whose recorded attempts hold >= 2 call stacks or >= 2 expected/unexpected tokens; distinct = distinct (grammar, rule, input). evaluations counts parses (2 per case).",
    assumptions: &[
        "set_error_detail is process-global: each worker process is single-threaded and resets it after every parse",
        "cases the model finds undefined/divergent, and parses that panic even without detail (empty-stack POP/PEEK), are skipped and counted",
    ],
    floor: |t| t.pick(50_000, 500_000),
    shards: |_| 16,
    run,
    replay,
    journal: true,
    pre: None,
};
