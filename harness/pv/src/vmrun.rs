//! Running the real front-end and VM and flattening outcomes for comparison (DESIGN 3.5).

use crate::fw::catch;
use crate::refsem::Tok;
use pest::error::{ErrorVariant, InputLocation};
use pest_meta::ast::Rule as AstRule;
use pest_meta::optimizer::OptimizedRule;
use pest_meta::parser;
use pest_vm::Vm;

pub const EXTRAS: bool = cfg!(feature = "extras");
pub fn config_name() -> &'static str {
    if EXTRAS {
        "extras"
    } else {
        "default"
    }
}

#[derive(Clone, Debug, PartialEq, Eq)]
pub enum VmOut {
    Ok(Vec<Tok>),
    Err { pos: usize, positives: Vec<String>, negatives: Vec<String>, custom: Option<String> },
    Panic(String),
}

pub struct Compiled {
    pub ast: Vec<AstRule>,
    pub opt: Vec<OptimizedRule>,
}

/// The same steps as `pest_meta::parse_and_optimize`, keeping the unoptimized AST too.
pub fn compile(text: &str) -> Result<Compiled, String> {
    let r = catch(|| {
        let pairs = parser::parse(parser::Rule::grammar_rules, text).map_err(|e| format!("parse: {e}"))?;
        pest_meta::validator::validate_pairs(pairs.clone()).map_err(|e| format!("validate_pairs: {}", e.len()))?;
        let ast = parser::consume_rules(pairs).map_err(|e| {
            format!("validate_ast: {}", e.iter().map(|x| x.variant.message().to_string()).collect::<Vec<_>>().join("; "))
        })?;
        let opt = pest_meta::optimizer::optimize(ast.clone());
        Ok::<_, String>(Compiled { ast, opt })
    });
    match r {
        Ok(x) => x,
        Err(p) => Err(format!("PANIC: {p}")),
    }
}

pub fn flatten_pairs(pairs: pest::iterators::Pairs<'_, &str>) -> Vec<Tok> {
    use pest::Token;
    // tags are read from the pairs (tokens() does not carry them)
    let mut tags: std::collections::HashMap<(usize, usize, String), Vec<Option<String>>> = Default::default();
    for p in pairs.clone().flatten() {
        let sp = p.as_span();
        tags.entry((sp.start(), sp.end(), p.as_rule().to_string())).or_default().push(p.as_node_tag().map(|s| s.to_string()));
    }
    let _ = tags;
    let mut out = vec![];
    for t in pairs.tokens() {
        match t {
            Token::Start { rule, pos } => out.push(Tok { start: true, rule: rule.to_string(), pos: pos.pos(), tag: None }),
            Token::End { rule, pos } => out.push(Tok { start: false, rule: rule.to_string(), pos: pos.pos(), tag: None }),
        }
    }
    out
}

/// Tags per pair in pre-order (flatten order), for the tag comparisons.
pub fn flatten_tags(pairs: pest::iterators::Pairs<'_, &str>) -> Vec<(String, usize, usize, Option<String>)> {
    pairs
        .flatten()
        .map(|p| {
            let sp = p.as_span();
            (p.as_rule().to_string(), sp.start(), sp.end(), p.as_node_tag().map(|s| s.to_string()))
        })
        .collect()
}

pub fn run_vm(vm: &Vm, rule: &str, input: &str) -> VmOut {
    let r = catch(|| match vm.parse(rule, input) {
        Ok(pairs) => VmOut::Ok(flatten_pairs(pairs)),
        Err(e) => {
            let pos = match e.location {
                InputLocation::Pos(p) => p,
                InputLocation::Span((a, _)) => a,
            };
            match e.variant {
                ErrorVariant::ParsingError { positives, negatives } => VmOut::Err {
                    pos,
                    positives: positives.iter().map(|s| s.to_string()).collect(),
                    negatives: negatives.iter().map(|s| s.to_string()).collect(),
                    custom: None,
                },
                ErrorVariant::CustomError { message } => VmOut::Err { pos, positives: vec![], negatives: vec![], custom: Some(message) },
            }
        }
    });
    match r {
        Ok(v) => v,
        Err(p) => VmOut::Panic(p),
    }
}

/// Run with a call limit in force only around the parse (the static is process-global and the
/// meta parser honours it too).
pub fn run_vm_limited(vm: &Vm, rule: &str, input: &str, limit: usize) -> VmOut {
    pest::set_call_limit(std::num::NonZeroUsize::new(limit));
    let r = run_vm(vm, rule, input);
    pest::set_call_limit(None);
    r
}

pub fn toks_to_string(t: &[Tok]) -> String {
    // a(0 b(1 1) 3) style
    let mut s = String::new();
    for k in t {
        if k.start {
            s.push_str(&format!("{}[{} ", k.rule, k.pos));
        } else {
            s.push_str(&format!("{}] ", k.pos));
        }
    }
    s.trim_end().to_string()
}
