//! C14 — the bootstrapped grammar parser is the parser its grammar file denotes. Three engines on
//! every text and every start rule: (1) the checked-in pest_meta::parser (grammar.rs), (2) the VM
//! over meta/src/grammar.pest through the current optimizer, (3) a parser derived from the same
//! file when the harness is built (current generator).

use crate::c09::{corpus, mutate, DICT, GAPS};
use crate::fw::*;
use crate::gram::*;
use pest::error::{Error, ErrorVariant, InputLocation};
use pest::{Parser, RuleType};
use pest_vm::Vm;
use proptest::prelude::*;
use serde_json::{json, Value};

mod fresh {
    #[derive(pest_derive::Parser)]
    #[grammar = "/repo/meta/src/grammar.pest"]
    pub struct FreshMetaParser;
}
use fresh::{FreshMetaParser, Rule as FRule};
use pest_meta::parser::Rule as MRule;

macro_rules! rule_table {
    ($($name:ident),* $(,)?) => {
        pub fn rule_table() -> Vec<(&'static str, MRule, FRule)> {
            vec![ $( (stringify!($name), MRule::$name, FRule::$name) ),* ]
        }
    };
}
rule_table!(
    grammar_rules, grammar_rule, assignment_operator, opening_brace, closing_brace, opening_paren, closing_paren, opening_brack, closing_brack, modifier, silent_modifier, atomic_modifier,
    compound_atomic_modifier, non_atomic_modifier, tag_id, node_tag, expression, term, node, terminal, prefix_operator, infix_operator, postfix_operator, positive_predicate_operator,
    negative_predicate_operator, sequence_operator, choice_operator, optional_operator, repeat_operator, repeat_once_operator, repeat_exact, repeat_min, repeat_max, repeat_min_max, number, integer,
    comma, _push, _push_literal, peek_slice, identifier, alpha, alpha_num, string, insensitive_string, range, character, inner_str, inner_chr, escape, code, unicode, hex_digit, quote, single_quote,
    range_operator, newline, WHITESPACE, line_comment, block_comment, COMMENT, space, grammar_doc, line_doc, inner_doc
);

#[derive(Debug, Clone, PartialEq, Eq)]
pub enum Obs {
    Ok(Vec<(bool, String, usize)>),
    Err { pos: usize, positives: Vec<String>, negatives: Vec<String>, custom: Option<String> },
    Panic(String),
}

fn name<R: RuleType>(r: &R) -> String {
    format!("{r:?}").trim_matches('"').to_string()
}

fn obs_err<R: RuleType>(e: Error<R>) -> Obs {
    let pos = match e.location {
        InputLocation::Pos(p) => p,
        InputLocation::Span((a, _)) => a,
    };
    match e.variant {
        ErrorVariant::ParsingError { positives, negatives } => {
            let mut p: Vec<String> = positives.iter().map(name).collect();
            let mut n: Vec<String> = negatives.iter().map(name).collect();
            // the three engines order rule sets by their own Rule type's Ord; compare as sets
            p.sort();
            n.sort();
            Obs::Err { pos, positives: p, negatives: n, custom: None }
        }
        ErrorVariant::CustomError { message } => Obs::Err { pos, positives: vec![], negatives: vec![], custom: Some(message) },
    }
}

fn obs_pairs<R: RuleType>(p: pest::iterators::Pairs<'_, R>) -> Obs {
    Obs::Ok(
        p.tokens()
            .map(|t| match t {
                pest::Token::Start { rule, pos } => (true, name(&rule), pos.pos()),
                pest::Token::End { rule, pos } => (false, name(&rule), pos.pos()),
            })
            .collect(),
    )
}

pub struct Engines {
    pub vm: Vm,
    pub table: Vec<(&'static str, MRule, FRule)>,
}

pub fn engines() -> Result<Engines, String> {
    let text = std::fs::read_to_string("/repo/meta/src/grammar.pest").map_err(|e| e.to_string())?;
    let text: &'static str = Box::leak(text.into_boxed_str());
    let (_, rules) = pest_meta::parse_and_optimize(text).map_err(|e| format!("meta/src/grammar.pest is rejected by the current front-end: {} error(s)", e.len()))?;
    let table = rule_table();
    let names: std::collections::BTreeSet<String> = rules.iter().map(|r| r.name.clone()).collect();
    let tnames: std::collections::BTreeSet<String> = table.iter().map(|(n, _, _)| n.to_string()).collect();
    if names != tnames {
        return Err(format!("grammar.pest defines rules {:?} that the harness table lacks, or vice versa {:?}", names.difference(&tnames).collect::<Vec<_>>(), tnames.difference(&names).collect::<Vec<_>>()));
    }
    Ok(Engines { vm: Vm::new(rules), table })
}

pub fn three_way(e: &Engines, rule_idx: usize, text: &str) -> (Obs, Obs, Obs) {
    let (rname, mr, fr) = e.table[rule_idx];
    // a generous call limit guards against runaway parses identically for all three
    pest::set_call_limit(std::num::NonZeroUsize::new(2_000_000));
    let a = catch(|| match pest_meta::parser::parse(mr, text) {
        Ok(p) => obs_pairs(p),
        Err(e) => obs_err(e),
    })
    .unwrap_or_else(Obs::Panic);
    let b = catch(|| match e.vm.parse(rname, text) {
        Ok(p) => obs_pairs(p),
        Err(e) => obs_err(e),
    })
    .unwrap_or_else(Obs::Panic);
    let c = catch(|| match FreshMetaParser::parse(fr, text) {
        Ok(p) => obs_pairs(p),
        Err(e) => obs_err(e),
    })
    .unwrap_or_else(Obs::Panic);
    pest::set_call_limit(None);
    (a, b, c)
}

fn short(o: &Obs) -> String {
    let s = format!("{o:?}");
    if s.len() > 600 {
        format!("{}...", &s[..600])
    } else {
        s
    }
}

pub fn check_text(ctx: &mut Ctx, e: &Engines, text: &str, rule_idx: usize, origin: &str) -> Result<(), Fail> {
    ctx.eval();
    let (a, b, c) = three_way(e, rule_idx, text);
    let rname = e.table[rule_idx].0;
    let case = json!({"text": text, "rule": rname});
    // the guard limit counts combinator calls, and the three engines make different numbers of them for the same
    // parse (the VM interprets `skip` and built-ins with extra calls): a parse on which any engine trips the guard
    // says nothing about agreement and is set aside (counted)
    let tripped = |o: &Obs| matches!(o, Obs::Err { custom: Some(m), .. } if m == "call limit reached");
    if tripped(&a) || tripped(&b) || tripped(&c) {
        ctx.excluded += 1;
        ctx.class(&format!("{origin}:set-aside:guard-call-limit-reached"));
        return Ok(());
    }
    if a != b {
        return Err(Fail::new("c14:checked-in-vs-vm", format!("rule {rname} on {text:?} ({origin}):\n checked-in parser: {}\n grammar.pest via optimizer+VM: {}", short(&a), short(&b)), case));
    }
    if a != c {
        return Err(Fail::new("c14:checked-in-vs-fresh", format!("rule {rname} on {text:?} ({origin}):\n checked-in parser: {}\n freshly generated parser: {}", short(&a), short(&c)), case));
    }
    let matched_rule = matches!(&a, Obs::Ok(t) if t.iter().any(|(s, r, _)| *s && r == "grammar_rule"));
    ctx.class(&format!("{origin}:{}", if matches!(a, Obs::Ok(_)) { "ok" } else { "err" }));
    if (text.len() >= 20 && matched_rule) || (rule_idx != 0 && matches!(a, Obs::Ok(ref t) if !t.is_empty())) {
        ctx.nontrivial(&(text, rule_idx));
        ctx.sample(|| json!({"text": text, "rule": rname, "origin": origin}));
    }
    Ok(())
}

pub fn run(ctx: &mut Ctx) {
    let e = match engines() {
        Ok(e) => e,
        Err(m) => {
            ctx.report(Fail::new("c14:grammar-file", m, json!({"text": "", "rule": "grammar_rules"})));
            return;
        }
    };
    let nrules = e.table.len();
    let corp = corpus();
    let n = ctx.share(ctx.tier.pick(120_000, 3_000_000));
    let ops = || proptest::collection::vec((any::<u8>(), any::<u16>(), any::<u16>()), 0..3);
    // whole (mutated) grammars against the top rule and sometimes another rule
    if !corp.is_empty() {
        let c2 = corp.clone();
        let strat = (0..corp.len(), ops(), proptest::option::weighted(0.3, 0..nrules)).prop_map(move |(i, o, r)| (mutate(&c2[i], &o), r.unwrap_or(0)));
        ctx.run_prop(n / 6, 1, strat, |ctx, (t, r)| check_text(ctx, &e, t, *r, "repo-grammar"));
    }
    let strat = (grammar_strategy(GenCfg::standard(false)), proptest::collection::vec(any::<u8>(), 16..80), ops(), proptest::option::weighted(0.3, 0..nrules))
        .prop_map(|(g, sp, o, r)| (mutate(&crate::c07::spell(&g, &sp, true, true).text, &o), r.unwrap_or(0)));
    ctx.run_prop(n / 3, 2, strat, |ctx, (t, r)| check_text(ctx, &e, t, *r, "spelled-generated-grammar"));
    // short token soup against every rule
    let strat = (proptest::collection::vec((0..DICT.len(), 0..GAPS.len()), 0..8), 0..nrules).prop_map(|(v, r)| (v.iter().map(|(d, g)| format!("{}{}", DICT[*d], GAPS[*g])).collect::<String>(), r));
    ctx.run_prop(n / 2, 3, strat, |ctx, (t, r)| check_text(ctx, &e, t, *r, "token-soup"));
    // every rule on a fixed set of fragments (by shard)
    let frags = [
        "a = { b }", "\"str\\n\\x41\\u{1F600}\"", "'a'..'z'", "^\"ab\"", "PUSH(a ~ b)", "PUSH_LITERAL(\"x\")", "PEEK[-1..2]", "PEEK[..]", "#tag = a*", "{2,3}", "{,3}", "{2,}", "{2}", "-007", "12", "// c\n",
        "/* a /* b */ c */", "//! doc\n", "/// doc\n", "_", "@", "$", "!", "&", "~", "|", "?", "*", "+", "..", "\\u{41}", "\\x41", "x41", "u{41}", "F", "\"", "'", "\n", "\r\n", " ", "\t", "(a | b)", "a ~ b | c", "!a* ~ &b+",
        "a_1", "PUSHx", "PEEK", "é", "",
    ];
    for (k, fr) in frags.iter().enumerate() {
        if (k as u64) % ctx.nshards != ctx.shard {
            continue;
        }
        for r in 0..nrules {
            if let Err(f) = check_text(ctx, &e, fr, r, "fragment-x-every-rule") {
                if ctx.report(f) {
                    return;
                }
            }
        }
    }
}

pub fn replay(case: &Value) -> Result<(), Fail> {
    let text = case["text"].as_str().expect("text");
    let e = engines().map_err(|m| Fail::new("c14:grammar-file", m, case.clone()))?;
    // raw libFuzzer artifacts carry the selector byte instead of the rule name
    let idx = match (case["rule"].as_str(), case["rule_selector_byte"].as_u64()) {
        (Some(rname), _) => e.table.iter().position(|(n, _, _)| *n == rname).unwrap_or(0),
        (None, Some(b)) if b % 4 == 0 => (b as usize / 4) % e.table.len(),
        _ => 0,
    };
    let mut ctx = Ctx::new("C14", Tier::Quick, 0, 0, 1);
    check_text(&mut ctx, &e, text, idx, "replay")
}

pub const DEF: CheckDef = CheckDef {
    id: "C14",
    rule: "Texts: token-mutated chunks of the repository's .pest files; adversarially spelled (C07 speller) and then token-mutated generated grammars; short token soup over the meta-grammar's dictionary; a fixed list of ~50 fragments (literals, escapes, repetition suffixes, comments, docs, operators) x EVERY rule of the meta-grammar as start rule (the other sources use the top rule, or a random rule 30% of the time). Three engines: pest_meta::parser::parse (checked-in grammar.rs), Vm over parse_and_optimize(meta/src/grammar.pest) (current optimizer + VM), and a parser derived from the same file at harness build time (current generator). Oracle: pairwise equality of the outcome - identical token stream (rule names by Debug text, byte positions) or identical error position and expected/unexpected rule-name sets; a panic is an outcome of its own. Non-trivial = text >= 20 bytes on which grammar_rule matched at least once, or a successful non-empty parse from a sub-rule; distinct = distinct (text, start rule).",
    assumptions: &["error rule lists are compared as sets of names (each engine sorts by its own Rule type's order)", "a 2,000,000-call guard limit is in force for the three engines; a text on which any engine reaches it is set aside and counted (the engines make different numbers of calls for the same parse)"],
    floor: |t| t.pick(5_000, 50_000),
    shards: |_| 16,
    run,
    replay,
    journal: false,
    pre: None,
};
