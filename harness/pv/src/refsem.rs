//! Independent reference semantics for the pest grammar language, written from the normative
//! prose in derive/src/lib.rs (sections "Grammar", "Special rules", "WHITESPACE and COMMENT",
//! "PUSH, POP, DROP, and PEEK") and the pinned tests. Purely functional over a small core IR;
//! never touches ParserState or the VM.

use pest_meta::ast::{Expr, Rule as AstRule, RuleType};
use pest_meta::optimizer::{OptimizedExpr, OptimizedRule};
use std::collections::{HashMap, HashSet};
use std::rc::Rc;

#[derive(Clone, Debug, PartialEq, Eq)]
pub enum Core {
    Str(String),
    Insens(String),
    Range(char, char),
    Call(String),
    PeekSlice(i32, Option<i32>),
    Pos(Rc<Core>),
    Neg(Rc<Core>),
    Seq(Rc<Core>, Rc<Core>),
    Choice(Rc<Core>, Rc<Core>),
    Opt(Rc<Core>),
    Rep(Rc<Core>),
    /// primitive one-or-more: `e (skip e)*` (only produced under grammar-extras)
    RepOnce(Rc<Core>),
    Push(Rc<Core>),
    PushLit(String),
    Tag(Rc<Core>, String),
    /// the optimizer's Skip(strings): `(!(s1|s2|..) ~ ANY)*` with no implicit skipping
    SkipUntil(Vec<String>),
}

#[derive(Clone, Debug)]
pub struct CRule {
    pub name: String,
    pub ty: RuleType,
    pub body: Rc<Core>,
}

#[derive(Clone, Debug)]
pub struct CGrammar {
    pub rules: HashMap<String, CRule>,
    pub order: Vec<String>,
}

fn rc(c: Core) -> Rc<Core> {
    Rc::new(c)
}

fn seq_of(mut items: Vec<Core>) -> Core {
    // right-nested sequence of >= 1 items
    let mut acc = items.pop().expect("non-empty sequence");
    while let Some(x) = items.pop() {
        acc = Core::Seq(rc(x), rc(acc));
    }
    acc
}

fn one_char(s: &str) -> char {
    s.chars().next().expect("char literal")
}

/// Lowering of the unoptimized AST (the specification side). Bounded repetitions are defined by
/// the table in the prose: e{n} = n copies; e{n,} = n copies then e*; e{,n} = n optionals;
/// e{m,n} = m copies then n-m optionals; e+ = e ~ e* (grammar-extras: the primitive e (skip e)*).
pub fn lower_ast(e: &Expr, extras: bool) -> Result<Core, String> {
    Ok(match e {
        Expr::Str(s) => Core::Str(s.clone()),
        Expr::Insens(s) => Core::Insens(s.clone()),
        Expr::Range(a, b) => Core::Range(one_char(a), one_char(b)),
        Expr::Ident(n) => Core::Call(n.clone()),
        Expr::PeekSlice(a, b) => Core::PeekSlice(*a, *b),
        Expr::PosPred(x) => Core::Pos(rc(lower_ast(x, extras)?)),
        Expr::NegPred(x) => Core::Neg(rc(lower_ast(x, extras)?)),
        Expr::Seq(a, b) => Core::Seq(rc(lower_ast(a, extras)?), rc(lower_ast(b, extras)?)),
        Expr::Choice(a, b) => Core::Choice(rc(lower_ast(a, extras)?), rc(lower_ast(b, extras)?)),
        Expr::Opt(x) => Core::Opt(rc(lower_ast(x, extras)?)),
        Expr::Rep(x) => Core::Rep(rc(lower_ast(x, extras)?)),
        Expr::RepOnce(x) => {
            let c = lower_ast(x, extras)?;
            if extras {
                Core::RepOnce(rc(c))
            } else {
                Core::Seq(rc(c.clone()), rc(Core::Rep(rc(c))))
            }
        }
        Expr::RepExact(x, n) => {
            if *n == 0 {
                return Err("e{0} has no documented meaning".into());
            }
            let c = lower_ast(x, extras)?;
            seq_of((0..*n).map(|_| c.clone()).collect())
        }
        Expr::RepMin(x, n) => {
            let c = lower_ast(x, extras)?;
            let mut v: Vec<Core> = (0..*n).map(|_| c.clone()).collect();
            v.push(Core::Rep(rc(c)));
            seq_of(v)
        }
        Expr::RepMax(x, n) => {
            if *n == 0 {
                return Err("e{,0} has no documented meaning".into());
            }
            let c = lower_ast(x, extras)?;
            seq_of((0..*n).map(|_| Core::Opt(rc(c.clone()))).collect())
        }
        Expr::RepMinMax(x, m, n) => {
            if m > n || *n == 0 {
                return Err("e{m,n} with m>n or n=0 has no documented meaning".into());
            }
            let c = lower_ast(x, extras)?;
            let mut v: Vec<Core> = (0..*m).map(|_| c.clone()).collect();
            v.extend((0..(*n - *m)).map(|_| Core::Opt(rc(c.clone()))));
            seq_of(v)
        }
        Expr::Skip(v) => Core::SkipUntil(v.clone()),
        Expr::Push(x) => Core::Push(rc(lower_ast(x, extras)?)),
        #[cfg(feature = "extras")]
        Expr::PushLiteral(s) => Core::PushLit(s.clone()),
        #[cfg(feature = "extras")]
        Expr::NodeTag(x, t) => Core::Tag(rc(lower_ast(x, extras)?), t.clone()),
    })
}

/// 1:1 lowering of optimized rules (Skip = the loop it abbreviates, RestoreOnErr = identity).
pub fn lower_opt(e: &OptimizedExpr) -> Core {
    match e {
        OptimizedExpr::Str(s) => Core::Str(s.clone()),
        OptimizedExpr::Insens(s) => Core::Insens(s.clone()),
        OptimizedExpr::Range(a, b) => Core::Range(one_char(a), one_char(b)),
        OptimizedExpr::Ident(n) => Core::Call(n.clone()),
        OptimizedExpr::PeekSlice(a, b) => Core::PeekSlice(*a, *b),
        OptimizedExpr::PosPred(x) => Core::Pos(rc(lower_opt(x))),
        OptimizedExpr::NegPred(x) => Core::Neg(rc(lower_opt(x))),
        OptimizedExpr::Seq(a, b) => Core::Seq(rc(lower_opt(a)), rc(lower_opt(b))),
        OptimizedExpr::Choice(a, b) => Core::Choice(rc(lower_opt(a)), rc(lower_opt(b))),
        OptimizedExpr::Opt(x) => Core::Opt(rc(lower_opt(x))),
        OptimizedExpr::Rep(x) => Core::Rep(rc(lower_opt(x))),
        #[cfg(feature = "extras")]
        OptimizedExpr::RepOnce(x) => Core::RepOnce(rc(lower_opt(x))),
        OptimizedExpr::Skip(v) => Core::SkipUntil(v.clone()),
        OptimizedExpr::Push(x) => Core::Push(rc(lower_opt(x))),
        #[cfg(feature = "extras")]
        OptimizedExpr::PushLiteral(s) => Core::PushLit(s.clone()),
        #[cfg(feature = "extras")]
        OptimizedExpr::NodeTag(x, t) => Core::Tag(rc(lower_opt(x)), t.clone()),
        OptimizedExpr::RestoreOnErr(x) => lower_opt(x),
    }
}

pub fn grammar_from_ast(rules: &[AstRule], extras: bool) -> Result<CGrammar, String> {
    let mut g = CGrammar { rules: HashMap::new(), order: vec![] };
    for r in rules {
        let body = lower_ast(&r.expr, extras)?;
        g.order.push(r.name.clone());
        g.rules.insert(r.name.clone(), CRule { name: r.name.clone(), ty: r.ty, body: rc(body) });
    }
    Ok(g)
}

pub fn grammar_from_opt(rules: &[OptimizedRule]) -> CGrammar {
    let mut g = CGrammar { rules: HashMap::new(), order: vec![] };
    for r in rules {
        g.order.push(r.name.clone());
        g.rules.insert(r.name.clone(), CRule { name: r.name.clone(), ty: r.ty, body: rc(lower_opt(&r.expr)) });
    }
    g
}

#[derive(Clone, Debug, PartialEq, Eq, Hash)]
pub struct Tok {
    pub start: bool,
    pub rule: String,
    pub pos: usize,
    pub tag: Option<String>,
}

#[derive(Clone, Debug, PartialEq, Eq)]
pub enum Outcome {
    Match { end: usize, tokens: Vec<Tok>, stack: Vec<String> },
    NoMatch,
    /// evaluation provably never terminates (re-entry of an active configuration or an iteration
    /// that ends in the state it began in); the string says which
    Diverges(String),
    /// behaviour the prose leaves undefined (POP/PEEK on an empty stack) or fuel exhausted
    Undefined(String),
}

#[derive(Clone, Debug, Default)]
pub struct Facts {
    pub skip_consumed: bool,
    pub modifier_on_path: bool,
    pub predicate: bool,
    pub rep_ge2: bool,
    pub stack_op: bool,
    pub silent_rule: bool,
    pub steps: u64,
    pub max_depth: usize,
    pub rule_calls: u64,
}

impl Facts {
    pub fn feature_count(&self) -> usize {
        [self.skip_consumed, self.modifier_on_path, self.predicate, self.rep_ge2, self.stack_op, self.silent_rule]
            .iter()
            .filter(|b| **b)
            .count()
    }
}

/// Persistent (shared-tail) stack so that saving and restoring it is O(1).
#[derive(Clone, Debug, Default)]
pub struct PStack(Option<Rc<PNode>>);
#[derive(Debug)]
pub struct PNode {
    val: String,
    next: Option<Rc<PNode>>,
    len: usize,
}
impl PStack {
    pub fn from_vec(v: &[String]) -> PStack {
        let mut s = PStack(None);
        for x in v {
            s.push(x.clone());
        }
        s
    }
    pub fn len(&self) -> usize {
        self.0.as_ref().map(|n| n.len).unwrap_or(0)
    }
    pub fn push(&mut self, val: String) {
        let len = self.len() + 1;
        self.0 = Some(Rc::new(PNode { val, next: self.0.take(), len }));
    }
    pub fn pop(&mut self) -> Option<String> {
        let n = self.0.take()?;
        self.0 = n.next.clone();
        Some(n.val.clone())
    }
    pub fn last(&self) -> Option<&str> {
        self.0.as_ref().map(|n| n.val.as_str())
    }
    pub fn clear(&mut self) {
        self.0 = None;
    }
    /// top to bottom
    pub fn iter_top_down(&self) -> impl Iterator<Item = &str> {
        let mut cur = self.0.as_deref();
        std::iter::from_fn(move || {
            let n = cur?;
            cur = n.next.as_deref();
            Some(n.val.as_str())
        })
    }
    /// bottom to top
    pub fn to_vec(&self) -> Vec<String> {
        let mut v: Vec<String> = self.iter_top_down().map(|s| s.to_string()).collect();
        v.reverse();
        v
    }
    fn ptr(&self) -> usize {
        self.0.as_ref().map(|n| Rc::as_ptr(n) as usize).unwrap_or(0)
    }
    pub fn same(&self, other: &PStack) -> bool {
        if self.ptr() == other.ptr() {
            return true;
        }
        self.len() == other.len() && self.iter_top_down().eq(other.iter_top_down())
    }
}

#[derive(Clone, Copy, Debug, PartialEq, Eq, Hash)]
pub enum Atom {
    NonAtomic,
    Atomic,
    Compound,
}

enum Abort {
    Diverges(String),
    Undefined(String),
}

struct Ev<'a> {
    g: &'a CGrammar,
    input: &'a str,
    pos: usize,
    toks: Vec<Tok>,
    stack: PStack,
    atom: Atom,
    look: bool,
    active: HashSet<(String, usize, Atom, usize)>,
    nested: HashMap<(String, usize, Atom), u32>,
    /// active rule calls, outermost first; the flag says the call was made by the implicit skip
    chain: Vec<(String, bool)>,
    implicit_next: bool,
    fuel: u64,
    depth: usize,
    facts: Facts,
    has_ws: bool,
    has_cm: bool,
}

pub const DEFAULT_FUEL: u64 = 60_000;
const MAX_DEPTH: usize = 3000;

type R = Result<bool, Abort>;

fn ascii_ci_eq(a: char, b: char) -> bool {
    a == b || (a.is_ascii() && b.is_ascii() && a.to_ascii_lowercase() == b.to_ascii_lowercase())
}

impl<'a> Ev<'a> {
    fn rest(&self) -> &'a str {
        &self.input[self.pos..]
    }

    fn tick(&mut self) -> Result<(), Abort> {
        self.facts.steps += 1;
        if self.facts.steps > self.fuel {
            return Err(Abort::Undefined("fuel exhausted".into()));
        }
        Ok(())
    }

    fn match_str(&mut self, s: &str) -> bool {
        if self.rest().starts_with(s) {
            self.pos += s.len();
            true
        } else {
            false
        }
    }

    fn match_char(&mut self, f: impl Fn(char) -> bool) -> bool {
        match self.rest().chars().next() {
            Some(c) if f(c) => {
                self.pos += c.len_utf8();
                true
            }
            _ => false,
        }
    }

    fn skip(&mut self) -> Result<(), Abort> {
        if self.atom != Atom::NonAtomic || !(self.has_ws || self.has_cm) {
            return Ok(());
        }
        let p0 = self.pos;
        if self.has_ws && !self.has_cm {
            self.star_rule("WHITESPACE")?;
        } else if !self.has_ws && self.has_cm {
            self.star_rule("COMMENT")?;
        } else {
            // WHITESPACE* ~ (COMMENT ~ WHITESPACE*)*
            self.star_rule("WHITESPACE")?;
            loop {
                let before = (self.pos, self.stack.clone());
                self.implicit_next = true;
                if !self.call("COMMENT")? {
                    break;
                }
                self.star_rule("WHITESPACE")?;
                if self.pos == before.0 && self.stack.same(&before.1) {
                    return Err(Abort::Diverges("implicit (COMMENT ~ WHITESPACE*)* iterates without consuming".into()));
                }
                if self.pos == before.0 && self.stack.len() >= before.1.len() {
                    return Err(Abort::Undefined("zero-width implicit repetition iteration that does not shrink the stack".into()));
                }
            }
        }
        if self.pos > p0 {
            self.facts.skip_consumed = true;
        }
        Ok(())
    }

    fn star_rule(&mut self, name: &str) -> Result<(), Abort> {
        loop {
            let before = (self.pos, self.stack.clone());
            self.implicit_next = true;
            if !self.call(name)? {
                return Ok(());
            }
            if self.pos == before.0 && self.stack.same(&before.1) {
                return Err(Abort::Diverges(format!("implicit {name}* iterates without consuming")));
            }
            if self.pos == before.0 && self.stack.len() >= before.1.len() {
                return Err(Abort::Undefined("zero-width implicit repetition iteration that does not shrink the stack".into()));
            }
        }
    }

    fn emit_allowed(&self) -> bool {
        !self.look && self.atom != Atom::Atomic
    }

    fn call(&mut self, name: &str) -> R {
        self.tick()?;
        if let Some(rule) = self.g.rules.get(name) {
            let rule = rule.clone();
            return self.call_user(&rule);
        }
        Ok(match name {
            "ANY" => self.match_char(|_| true),
            "SOI" => self.pos == 0,
            "EOI" => {
                if self.pos == self.input.len() {
                    if self.emit_allowed() {
                        let p = self.pos;
                        self.toks.push(Tok { start: true, rule: "EOI".into(), pos: p, tag: None });
                        self.toks.push(Tok { start: false, rule: "EOI".into(), pos: p, tag: None });
                    }
                    true
                } else {
                    false
                }
            }
            "PEEK" => {
                self.facts.stack_op = true;
                match self.stack.last().map(|s| s.to_string()) {
                    None => return Err(Abort::Undefined("PEEK on an empty stack".into())),
                    Some(s) => self.match_str(&s),
                }
            }
            "POP" => {
                self.facts.stack_op = true;
                match self.stack.last().map(|s| s.to_string()) {
                    None => return Err(Abort::Undefined("POP on an empty stack".into())),
                    Some(s) => {
                        if self.match_str(&s) {
                            self.stack.pop();
                            true
                        } else {
                            false
                        }
                    }
                }
            }
            "DROP" => {
                self.facts.stack_op = true;
                self.stack.pop().is_some()
            }
            "PEEK_ALL" | "POP_ALL" => {
                self.facts.stack_op = true;
                let p0 = self.pos;
                let mut ok = true;
                let st = self.stack.clone();
                for s in st.iter_top_down() {
                    if !self.match_str(s) {
                        ok = false;
                        break;
                    }
                }
                if !ok {
                    self.pos = p0;
                } else if name == "POP_ALL" {
                    self.stack.clear();
                }
                ok
            }
            "ASCII_DIGIT" => self.match_char(|c| ('0'..='9').contains(&c)),
            "ASCII_NONZERO_DIGIT" => self.match_char(|c| ('1'..='9').contains(&c)),
            "ASCII_BIN_DIGIT" => self.match_char(|c| c == '0' || c == '1'),
            "ASCII_OCT_DIGIT" => self.match_char(|c| ('0'..='7').contains(&c)),
            "ASCII_HEX_DIGIT" => self.match_char(|c| c.is_ascii_hexdigit()),
            "ASCII_ALPHA_LOWER" => self.match_char(|c| c.is_ascii_lowercase()),
            "ASCII_ALPHA_UPPER" => self.match_char(|c| c.is_ascii_uppercase()),
            "ASCII_ALPHA" => self.match_char(|c| c.is_ascii_alphabetic()),
            "ASCII_ALPHANUMERIC" => self.match_char(|c| c.is_ascii_alphanumeric()),
            "ASCII" => self.match_char(|c| (c as u32) <= 0x7f),
            "NEWLINE" => self.match_str("\n") || self.match_str("\r\n") || self.match_str("\r"),
            other => match pest::unicode::by_name(other) {
                Some(f) => self.match_char(|c| f(c)),
                None => return Err(Abort::Undefined(format!("undefined rule {other}"))),
            },
        })
    }

    fn call_user(&mut self, rule: &CRule) -> R {
        self.facts.rule_calls += 1;
        // re-entry with the very same stack object (exact for stack-free grammars, where it is always empty)
        let key = (rule.name.clone(), self.pos, self.atom, self.stack.ptr());
        let implicit = std::mem::replace(&mut self.implicit_next, false);
        if !self.active.insert(key.clone()) {
            // the cycle: from the earlier activation of this rule to here
            let from = self.chain.iter().rposition(|(n, _)| *n == rule.name).unwrap_or(0);
            let mut cyc: Vec<String> = self.chain[from..].iter().map(|(n, imp)| if *imp { format!("[implicit]{n}") } else { n.clone() }).collect();
            cyc.push(if implicit { format!("[implicit]{}", rule.name) } else { rule.name.clone() });
            let via = self.chain[from + 1..].iter().any(|(_, imp)| *imp) || implicit;
            return Err(Abort::Diverges(format!(
                "rule {} re-entered at position {} without progress; cycle {}{}",
                rule.name,
                self.pos,
                cyc.join(" -> "),
                if via { "; via-implicit-skip" } else { "" }
            )));
        }
        self.chain.push((rule.name.clone(), implicit));
        // nested re-entries at the same position with a *different* stack (e.g. recursion through
        // PUSH_LITERAL("")): not provably endless, but runaway -- give up on the case early
        let nk = (rule.name.clone(), self.pos, self.atom);
        let cnt = self.nested.entry(nk.clone()).or_insert(0);
        *cnt += 1;
        if *cnt > 48 {
            return Err(Abort::Undefined("runaway zero-width recursion with a changing stack".into()));
        }
        self.depth += 1;
        self.facts.max_depth = self.facts.max_depth.max(self.depth);
        if self.depth > MAX_DEPTH {
            return Err(Abort::Undefined("recursion deeper than the model's bound".into()));
        }
        let is_ws = rule.name == "WHITESPACE" || rule.name == "COMMENT";
        let saved_atom = self.atom;
        // modifier: which atomicity is in force when the pair is emitted, and for the body
        let (emits, emit_atom, body_atom) = match rule.ty {
            RuleType::Normal => (true, self.atom, if is_ws { Atom::Atomic } else { self.atom }),
            RuleType::Silent => (false, self.atom, if is_ws { Atom::Atomic } else { self.atom }),
            RuleType::Atomic => (true, self.atom, Atom::Atomic),
            RuleType::CompoundAtomic => (true, Atom::Compound, Atom::Compound),
            RuleType::NonAtomic => (true, Atom::NonAtomic, if is_ws { Atom::Atomic } else { Atom::NonAtomic }),
        };
        match rule.ty {
            RuleType::Silent => self.facts.silent_rule = true,
            RuleType::Normal => {}
            _ => self.facts.modifier_on_path = true,
        }
        let emit = emits && !self.look && emit_atom != Atom::Atomic;
        let save = (self.pos, self.toks.len());
        if emit {
            self.toks.push(Tok { start: true, rule: rule.name.clone(), pos: self.pos, tag: None });
        }
        self.atom = body_atom;
        let r = self.eval(&rule.body);
        self.atom = saved_atom;
        self.depth -= 1;
        self.chain.pop();
        self.active.remove(&key);
        if let Some(c) = self.nested.get_mut(&nk) {
            *c -= 1;
        }
        let ok = r?;
        if ok {
            if emit {
                let p = self.pos;
                self.toks.push(Tok { start: false, rule: rule.name.clone(), pos: p, tag: None });
            }
        } else {
            self.pos = save.0;
            self.toks.truncate(save.1);
        }
        Ok(ok)
    }

    /// Invariant: a `false` result leaves (pos, toks, stack) exactly as on entry.
    fn eval(&mut self, e: &Core) -> R {
        self.tick()?;
        match e {
            Core::Str(s) => Ok(self.match_str(s)),
            Core::Insens(s) => {
                let mut it = self.rest().chars();
                let mut n = 0;
                for sc in s.chars() {
                    match it.next() {
                        Some(ic) if ascii_ci_eq(sc, ic) => n += ic.len_utf8(),
                        _ => return Ok(false),
                    }
                }
                self.pos += n;
                Ok(true)
            }
            Core::Range(a, b) => {
                let (a, b) = (*a, *b);
                Ok(self.match_char(|c| a <= c && c <= b))
            }
            Core::Call(n) => self.call(n),
            Core::PeekSlice(start, end) => {
                self.facts.stack_op = true;
                let len = self.stack.len() as i64;
                let norm = |i: i64| -> Option<i64> {
                    if i > len {
                        None
                    } else if i >= 0 {
                        Some(i)
                    } else if len + i >= 0 {
                        Some(len + i)
                    } else {
                        None
                    }
                };
                let Some(s) = norm(*start as i64) else { return Ok(false) };
                let e = match end {
                    None => len,
                    Some(e) => match norm(*e as i64) {
                        Some(e) => e,
                        None => return Ok(false),
                    },
                };
                if e <= s {
                    return Ok(true);
                }
                let p0 = self.pos;
                for item in self.stack.to_vec()[s as usize..e as usize].iter() {
                    if !self.match_str(item) {
                        self.pos = p0;
                        return Ok(false);
                    }
                }
                Ok(true)
            }
            Core::Pos(x) | Core::Neg(x) => {
                self.facts.predicate = true;
                let save = (self.pos, self.toks.len(), self.stack.clone());
                let saved_look = self.look;
                self.look = true;
                let r = self.eval(x);
                self.look = saved_look;
                let ok = r?;
                // predicates consume nothing, emit nothing and never change the stack
                self.pos = save.0;
                self.toks.truncate(save.1);
                self.stack = save.2;
                Ok(if matches!(e, Core::Pos(_)) { ok } else { !ok })
            }
            Core::Seq(a, b) => {
                let save = (self.pos, self.toks.len(), self.stack.clone());
                if self.eval(a)? {
                    self.skip()?;
                    if self.eval(b)? {
                        return Ok(true);
                    }
                }
                self.pos = save.0;
                self.toks.truncate(save.1);
                self.stack = save.2;
                Ok(false)
            }
            Core::Choice(a, b) => {
                if self.eval(a)? {
                    Ok(true)
                } else {
                    self.eval(b)
                }
            }
            Core::Opt(x) => {
                self.eval(x)?;
                Ok(true)
            }
            Core::Rep(x) => {
                if self.eval(x)? {
                    self.rep_tail(x, 1)?;
                }
                Ok(true)
            }
            Core::RepOnce(x) => {
                if self.eval(x)? {
                    self.rep_tail(x, 1)?;
                    Ok(true)
                } else {
                    Ok(false)
                }
            }
            Core::Push(x) => {
                self.facts.stack_op = true;
                let p0 = self.pos;
                if self.eval(x)? {
                    let s = self.input[p0..self.pos].to_string();
                    self.stack.push(s);
                    Ok(true)
                } else {
                    Ok(false)
                }
            }
            Core::PushLit(s) => {
                self.facts.stack_op = true;
                self.stack.push(s.clone());
                Ok(true)
            }
            Core::Tag(x, t) => {
                if self.eval(x)? {
                    if !self.look {
                        if let Some(last) = self.toks.last_mut() {
                            if !last.start {
                                last.tag = Some(t.clone());
                            }
                        }
                    }
                    Ok(true)
                } else {
                    Ok(false)
                }
            }
            Core::SkipUntil(strings) => {
                // (!(s1 | s2 | ...) ~ ANY)*
                loop {
                    let rest = self.rest();
                    if strings.iter().any(|s| rest.starts_with(s.as_str())) {
                        break;
                    }
                    match rest.chars().next() {
                        Some(c) => self.pos += c.len_utf8(),
                        None => break,
                    }
                }
                Ok(true)
            }
        }
    }

    /// `(skip e)*` after a first successful `e`; each `skip e` is all-or-nothing.
    fn rep_tail(&mut self, x: &Core, mut count: u32) -> Result<(), Abort> {
        loop {
            let save = (self.pos, self.toks.len(), self.stack.clone());
            self.skip()?;
            if self.eval(x)? {
                count += 1;
                if count >= 2 {
                    self.facts.rep_ge2 = true;
                }
                if self.pos == save.0 && self.stack.same(&save.2) {
                    return Err(Abort::Diverges(format!("repetition iterates at position {} without consuming", self.pos)));
                }
                if self.pos == save.0 && self.stack.len() >= save.2.len() {
                    // zero-width iteration that changes the stack without shrinking it (e.g.
                    // PUSH(PEEK_ALL)*): almost always an endless loop, but not provably so
                    return Err(Abort::Undefined("zero-width repetition iteration that does not shrink the stack".into()));
                }
            } else {
                self.pos = save.0;
                self.toks.truncate(save.1);
                self.stack = save.2;
                return Ok(());
            }
        }
    }
}

pub fn run(g: &CGrammar, rule: &str, input: &str) -> (Outcome, Facts) {
    run_with(g, rule, input, DEFAULT_FUEL, vec![])
}

pub fn run_with(g: &CGrammar, rule: &str, input: &str, fuel: u64, stack: Vec<String>) -> (Outcome, Facts) {
    let mut ev = Ev {
        g,
        input,
        pos: 0,
        toks: vec![],
        stack: PStack::from_vec(&stack),
        atom: Atom::NonAtomic,
        look: false,
        active: HashSet::new(),
        nested: HashMap::new(),
        chain: vec![],
        implicit_next: false,
        fuel,
        depth: 0,
        facts: Facts::default(),
        has_ws: g.rules.contains_key("WHITESPACE"),
        has_cm: g.rules.contains_key("COMMENT"),
    };
    let r = ev.call(rule);
    let out = match r {
        Ok(true) => Outcome::Match { end: ev.pos, tokens: ev.toks, stack: ev.stack.to_vec() },
        Ok(false) => Outcome::NoMatch,
        Err(Abort::Diverges(s)) => Outcome::Diverges(s),
        Err(Abort::Undefined(s)) => Outcome::Undefined(s),
    };
    (out, ev.facts)
}

/// Evaluate a bare expression (used by the per-pass optimizer checks): the expression is wrapped
/// as the body of `rule_name` in `g`.
pub fn alphabet_of(g: &CGrammar) -> Vec<char> {
    fn walk(c: &Core, out: &mut Vec<char>) {
        match c {
            Core::Str(s) | Core::Insens(s) | Core::PushLit(s) => out.extend(s.chars()),
            Core::Range(a, b) => {
                out.push(*a);
                out.push(*b);
            }
            Core::Call(n) => match n.as_str() {
                "ASCII_DIGIT" | "ASCII_ALPHANUMERIC" | "ASCII_HEX_DIGIT" | "ASCII_NONZERO_DIGIT" => out.push('1'),
                "ASCII_BIN_DIGIT" | "ASCII_OCT_DIGIT" => out.push('1'),
                "ASCII_ALPHA" | "ASCII_ALPHA_LOWER" | "LETTER" | "LOWERCASE_LETTER" => out.push('a'),
                "ASCII_ALPHA_UPPER" | "UPPERCASE_LETTER" => out.push('A'),
                "NEWLINE" => {
                    out.push('\n');
                    out.push('\r')
                }
                _ => {}
            },
            Core::Pos(x) | Core::Neg(x) | Core::Opt(x) | Core::Rep(x) | Core::RepOnce(x) | Core::Push(x) | Core::Tag(x, _) => walk(x, out),
            Core::Seq(a, b) | Core::Choice(a, b) => {
                walk(a, out);
                walk(b, out)
            }
            Core::SkipUntil(v) => {
                for s in v {
                    out.extend(s.chars())
                }
            }
            Core::PeekSlice(..) => {}
        }
    }
    let mut out = vec![];
    for n in &g.order {
        walk(&g.rules[n].body, &mut out);
    }
    out.sort();
    out.dedup();
    out
}
