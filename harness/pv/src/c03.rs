//! C03 — parser-state combinators are all-or-nothing and match exactly. Generated trees over the
//! public ParserState API are run against a direct operational model of the documented contracts;
//! after EVERY operation the real state (cfg hook `verif_snapshot`) is compared with the model.
//! This file depends only on `pest` and the framework so that it can be built with and without
//! the `memchr` feature.

use crate::fw::*;
use pest::verif::Snapshot;
use pest::{Atomicity, Lookahead, MatchDir, ParseResult, ParserState};
use proptest::prelude::*;
use serde_json::{json, Value};
use std::cell::RefCell;

pub const MEMCHR: bool = cfg!(feature = "c03_memchr");

#[derive(Clone, Debug, PartialEq, Eq, Hash)]
pub enum Op {
    Seq(Vec<Op>),
    Chain(Vec<Op>),
    OrElse(Vec<Op>),
    Opt(Box<Op>),
    Rep(Box<Op>),
    Look(bool, Box<Op>),
    Atomic(u8, Box<Op>),
    Rule(u8, Box<Op>),
    Push(Box<Op>),
    Restore(Box<Op>),
    Str(String),
    Insens(String),
    Range(char, char),
    CharBy(u8),
    Skip(usize),
    SkipUntil(Vec<String>),
    Soi,
    Eoi,
    Peek,
    Pop,
    Drop,
    MatchPeek,
    MatchPop,
    PeekSlice(i32, Option<i32>, bool),
    PushLit(String),
    Tag(u8),
}

const TAGS: [&str; 3] = ["t0", "t1", "t2"];
const STRS: [&str; 11] = ["", "a", "b", "ab", "ba", "c", "é", "€", "😀", " ", "a€"];
const INPUT_ALPHA: [char; 8] = ['a', 'b', 'c', 'é', '€', '😀', ' ', 'A'];

fn atom_of(k: u8) -> Atomicity {
    match k % 3 {
        0 => Atomicity::Atomic,
        1 => Atomicity::CompoundAtomic,
        _ => Atomicity::NonAtomic,
    }
}
fn char_pred(k: u8) -> fn(char) -> bool {
    match k % 3 {
        0 => |c| c.is_ascii(),
        1 => |c| !c.is_ascii(),
        _ => |c| c == 'a' || c == '€',
    }
}

// ------------------------------------------------------------------ JSON (replay files)
pub fn op_to_json(op: &Op) -> Value {
    let l = |v: &Vec<Op>| Value::Array(v.iter().map(op_to_json).collect());
    match op {
        Op::Seq(v) => json!({"sequence": l(v)}),
        Op::Chain(v) => json!({"and_then": l(v)}),
        Op::OrElse(v) => json!({"or_else": l(v)}),
        Op::Opt(x) => json!({"optional": op_to_json(x)}),
        Op::Rep(x) => json!({"repeat<=4": op_to_json(x)}),
        Op::Look(p, x) => json!({"lookahead": [p, op_to_json(x)]}),
        Op::Atomic(a, x) => json!({"atomic": [a % 3, op_to_json(x)]}),
        Op::Rule(r, x) => json!({"rule": [r, op_to_json(x)]}),
        Op::Push(x) => json!({"stack_push": op_to_json(x)}),
        Op::Restore(x) => json!({"restore_on_err": op_to_json(x)}),
        Op::Str(s) => json!({"match_string": s}),
        Op::Insens(s) => json!({"match_insensitive": s}),
        Op::Range(a, b) => json!({"match_range": [a.to_string(), b.to_string()]}),
        Op::CharBy(k) => json!({"match_char_by": k % 3}),
        Op::Skip(n) => json!({"skip": n}),
        Op::SkipUntil(v) => json!({"skip_until": v}),
        Op::Soi => json!("start_of_input"),
        Op::Eoi => json!("end_of_input"),
        Op::Peek => json!("stack_peek"),
        Op::Pop => json!("stack_pop"),
        Op::Drop => json!("stack_drop"),
        Op::MatchPeek => json!("stack_match_peek"),
        Op::MatchPop => json!("stack_match_pop"),
        Op::PeekSlice(a, b, d) => json!({"stack_match_peek_slice": [a, b, if *d { "BottomToTop" } else { "TopToBottom" }]}),
        Op::PushLit(s) => json!({"stack_push_literal": s}),
        Op::Tag(t) => json!({"tag_node": t % 3}),
    }
}

pub fn op_from_json(v: &Value) -> Op {
    let l = |v: &Value| v.as_array().unwrap().iter().map(op_from_json).collect::<Vec<_>>();
    if let Some(s) = v.as_str() {
        return match s {
            "start_of_input" => Op::Soi,
            "end_of_input" => Op::Eoi,
            "stack_peek" => Op::Peek,
            "stack_pop" => Op::Pop,
            "stack_drop" => Op::Drop,
            "stack_match_peek" => Op::MatchPeek,
            "stack_match_pop" => Op::MatchPop,
            _ => panic!("op {s}"),
        };
    }
    let (k, a) = v.as_object().unwrap().iter().next().unwrap();
    let ch = |x: &Value| x.as_str().unwrap().chars().next().unwrap();
    match k.as_str() {
        "sequence" => Op::Seq(l(a)),
        "and_then" => Op::Chain(l(a)),
        "or_else" => Op::OrElse(l(a)),
        "optional" => Op::Opt(Box::new(op_from_json(a))),
        "repeat<=4" => Op::Rep(Box::new(op_from_json(a))),
        "lookahead" => Op::Look(a[0].as_bool().unwrap(), Box::new(op_from_json(&a[1]))),
        "atomic" => Op::Atomic(a[0].as_u64().unwrap() as u8, Box::new(op_from_json(&a[1]))),
        "rule" => Op::Rule(a[0].as_u64().unwrap() as u8, Box::new(op_from_json(&a[1]))),
        "stack_push" => Op::Push(Box::new(op_from_json(a))),
        "restore_on_err" => Op::Restore(Box::new(op_from_json(a))),
        "match_string" => Op::Str(a.as_str().unwrap().into()),
        "match_insensitive" => Op::Insens(a.as_str().unwrap().into()),
        "match_range" => Op::Range(ch(&a[0]), ch(&a[1])),
        "match_char_by" => Op::CharBy(a.as_u64().unwrap() as u8),
        "skip" => Op::Skip(a.as_u64().unwrap() as usize),
        "skip_until" => Op::SkipUntil(a.as_array().unwrap().iter().map(|x| x.as_str().unwrap().to_string()).collect()),
        "stack_match_peek_slice" => Op::PeekSlice(a[0].as_i64().unwrap() as i32, a[1].as_i64().map(|x| x as i32), a[2].as_str() == Some("BottomToTop")),
        "stack_push_literal" => Op::PushLit(a.as_str().unwrap().into()),
        "tag_node" => Op::Tag(a.as_u64().unwrap() as u8),
        other => panic!("op {other}"),
    }
}

// ------------------------------------------------------------------ model
#[derive(Clone, Debug, PartialEq, Eq)]
struct Model {
    pos: usize,
    /// (is_start, pos, rule, tag)
    tokens: Vec<(bool, usize, Option<u8>, Option<String>)>,
    stack: Vec<String>,
    look: Lookahead,
    atom: Atomicity,
}

struct Ck<'i> {
    input: &'i str,
    model: Model,
    mismatch: Option<(String, String)>, // (signature, message)
    expect_panic: bool,
    nontrivial: bool,
    skip_until3: bool,
    steps: usize,
}

fn op_name(op: &Op) -> &'static str {
    match op {
        Op::Seq(_) => "sequence",
        Op::Chain(_) => "and_then",
        Op::OrElse(_) => "or_else",
        Op::Opt(_) => "optional",
        Op::Rep(_) => "repeat",
        Op::Look(..) => "lookahead",
        Op::Atomic(..) => "atomic",
        Op::Rule(..) => "rule",
        Op::Push(_) => "stack_push",
        Op::Restore(_) => "restore_on_err",
        Op::Str(_) => "match_string",
        Op::Insens(_) => "match_insensitive",
        Op::Range(..) => "match_range",
        Op::CharBy(_) => "match_char_by",
        Op::Skip(_) => "skip",
        Op::SkipUntil(_) => "skip_until",
        Op::Soi => "start_of_input",
        Op::Eoi => "end_of_input",
        Op::Peek => "stack_peek",
        Op::Pop => "stack_pop",
        Op::Drop => "stack_drop",
        Op::MatchPeek => "stack_match_peek",
        Op::MatchPop => "stack_match_pop",
        Op::PeekSlice(..) => "stack_match_peek_slice",
        Op::PushLit(_) => "stack_push_literal",
        Op::Tag(_) => "tag_node",
    }
}

impl Ck<'_> {
    fn compare(&mut self, snap: &Snapshot, real_ok: bool, model_ok: bool, op: &Op) {
        self.steps += 1;
        if self.mismatch.is_some() {
            return;
        }
        let name = op_name(op);
        if !self.input.is_char_boundary(snap.pos) {
            self.mismatch = Some((format!("c03:{name}:not-char-boundary"), format!("after {name} the position {} is not a UTF-8 boundary", snap.pos)));
            return;
        }
        if real_ok != model_ok {
            self.mismatch = Some((
                format!("c03:{name}:result"),
                format!("{name} returned {} but its documented contract gives {}", if real_ok { "Ok" } else { "Err" }, if model_ok { "Ok" } else { "Err" }),
            ));
            return;
        }
        let m = &self.model;
        let real_tokens: Vec<(bool, usize, Option<u8>, Option<String>)> =
            snap.tokens.iter().map(|(s, p, r, t)| (*s, *p, r.as_ref().map(|x| x.parse::<u8>().unwrap_or(255)), t.clone())).collect();
        let what = if snap.pos != m.pos {
            Some(("position", format!("{} vs model {}", snap.pos, m.pos)))
        } else if real_tokens != m.tokens {
            Some(("tokens", format!("{:?} vs model {:?}", real_tokens, m.tokens)))
        } else if snap.stack != m.stack {
            Some(("stack", format!("{:?} vs model {:?}", snap.stack, m.stack)))
        } else if snap.lookahead != m.look {
            Some(("lookahead", format!("{:?} vs model {:?}", snap.lookahead, m.look)))
        } else if snap.atomicity != m.atom {
            Some(("atomicity", format!("{:?} vs model {:?}", snap.atomicity, m.atom)))
        } else {
            None
        };
        if let Some((k, d)) = what {
            self.mismatch = Some((format!("c03:{name}:{k}"), format!("after {name} ({}): {k} {d}", if real_ok { "Ok" } else { "Err" })));
        }
    }
}

type St<'i> = Box<ParserState<'i, u8>>;

fn finish<'i>(r: ParseResult<St<'i>>, model_ok: bool, op: &Op, ck: &RefCell<Ck<'i>>) -> (ParseResult<St<'i>>, bool) {
    {
        let st = match &r {
            Ok(s) | Err(s) => s,
        };
        ck.borrow_mut().compare(&st.verif_snapshot(), r.is_ok(), model_ok, op);
    }
    (r, model_ok)
}

fn ascii_ci(a: char, b: char) -> bool {
    a == b || (a.is_ascii() && b.is_ascii() && a.eq_ignore_ascii_case(&b))
}

/// model of a terminal matcher: returns new position on success
fn model_terminal(input: &str, pos: usize, op: &Op) -> Option<usize> {
    let rest = &input[pos..];
    match op {
        Op::Str(s) => rest.starts_with(s.as_str()).then(|| pos + s.len()),
        Op::Insens(s) => {
            let mut it = rest.chars();
            let mut n = 0;
            for sc in s.chars() {
                match it.next() {
                    Some(ic) if ascii_ci(sc, ic) => n += ic.len_utf8(),
                    _ => return None,
                }
            }
            Some(pos + n)
        }
        Op::Range(a, b) => rest.chars().next().filter(|c| a <= c && c <= b).map(|c| pos + c.len_utf8()),
        Op::CharBy(k) => rest.chars().next().filter(|c| char_pred(*k)(*c)).map(|c| pos + c.len_utf8()),
        Op::Skip(n) => {
            let mut it = rest.char_indices();
            let mut end = 0;
            for _ in 0..*n {
                match it.next() {
                    Some((i, c)) => end = i + c.len_utf8(),
                    None => return None,
                }
            }
            Some(pos + end)
        }
        Op::SkipUntil(v) => {
            // first position >= pos (on a char boundary) where one of the strings starts; else the end
            let mut p = pos;
            loop {
                if v.iter().any(|s| input[p..].starts_with(s.as_str())) {
                    return Some(p);
                }
                match input[p..].chars().next() {
                    Some(c) => p += c.len_utf8(),
                    None => return Some(input.len()),
                }
            }
        }
        Op::Soi => (pos == 0).then_some(pos),
        Op::Eoi => (pos == input.len()).then_some(pos),
        _ => unreachable!(),
    }
}

fn exec_list<'i>(ops: &[Op], st: St<'i>, ck: &RefCell<Ck<'i>>) -> (ParseResult<St<'i>>, bool) {
    // a.and_then(b).and_then(c): stop at the first failure
    let mut cur: ParseResult<St<'i>> = Ok(st);
    let mut mok = true;
    for op in ops {
        match cur {
            Ok(s) => {
                let (r, ok) = exec(op, s, ck);
                cur = r;
                if !ok {
                    mok = false;
                }
                if cur.is_err() {
                    break; // follow the real control flow; a model/real disagreement is already flagged
                }
            }
            Err(_) => break,
        }
    }
    (cur, mok)
}

fn exec<'i>(op: &Op, st: St<'i>, ck: &RefCell<Ck<'i>>) -> (ParseResult<St<'i>>, bool) {
    let input = ck.borrow().input;
    match op {
        Op::Seq(v) => {
            let save = ck.borrow().model.clone();
            let mok = std::cell::Cell::new(true);
            let r = st.sequence(|s| {
                let (r, ok) = exec_list(v, s, ck);
                mok.set(ok);
                r
            });
            if !mok.get() {
                let mut c = ck.borrow_mut();
                if c.model.pos != save.pos || c.model.tokens != save.tokens || c.model.stack != save.stack {
                    c.nontrivial = true;
                }
                // a failed sequence leaves position, tokens and stack exactly as they were
                c.model.pos = save.pos;
                c.model.tokens = save.tokens;
                c.model.stack = save.stack;
            }
            finish(r, mok.get(), op, ck)
        }
        Op::Chain(v) => {
            let (r, ok) = exec_list(v, st, ck);
            finish(r, ok, op, ck)
        }
        Op::OrElse(v) => {
            // a.or_else(b).or_else(c): first success wins; nothing is restored in between
            let mut cur: ParseResult<St<'i>> = Err(st);
            let mut mok = false;
            for o in v {
                match cur {
                    Err(s) => {
                        let (r, ok) = exec(o, s, ck);
                        cur = r;
                        mok = ok;
                    }
                    Ok(_) => break,
                }
            }
            finish(cur, mok, op, ck)
        }
        Op::Opt(x) => {
            let r = st.optional(|s| exec(x, s, ck).0);
            finish(r, true, op, ck)
        }
        Op::Rep(x) => {
            let mut n = 0;
            let r = st.repeat(|s| {
                if n >= 4 {
                    return Err(s);
                }
                n += 1;
                exec(x, s, ck).0
            });
            finish(r, true, op, ck)
        }
        Op::Look(positive, x) => {
            let save = ck.borrow().model.clone();
            {
                let mut c = ck.borrow_mut();
                c.model.look = if *positive {
                    match save.look {
                        Lookahead::None | Lookahead::Positive => Lookahead::Positive,
                        Lookahead::Negative => Lookahead::Negative,
                    }
                } else {
                    match save.look {
                        Lookahead::None | Lookahead::Positive => Lookahead::Negative,
                        Lookahead::Negative => Lookahead::Positive,
                    }
                };
            }
            let mok = std::cell::Cell::new(true);
            let r = st.lookahead(*positive, |s| {
                let (r, ok) = exec(x, s, ck);
                mok.set(ok);
                r
            });
            {
                let mut c = ck.borrow_mut();
                if c.model.pos != save.pos || c.model.tokens != save.tokens || c.model.stack != save.stack {
                    c.nontrivial = true;
                }
                // any look-ahead, whether it succeeds or fails, leaves position, tokens and stack as they were
                c.model.pos = save.pos;
                c.model.tokens = save.tokens;
                c.model.stack = save.stack;
                c.model.look = save.look;
            }
            let ok = if *positive { mok.get() } else { !mok.get() };
            finish(r, ok, op, ck)
        }
        Op::Atomic(a, x) => {
            let a = atom_of(*a);
            let saved = ck.borrow().model.atom;
            ck.borrow_mut().model.atom = a;
            let mok = std::cell::Cell::new(true);
            let r = st.atomic(a, |s| {
                let (r, ok) = exec(x, s, ck);
                mok.set(ok);
                r
            });
            ck.borrow_mut().model.atom = saved;
            finish(r, mok.get(), op, ck)
        }
        Op::Rule(rule, x) => {
            let (emit, idx, start) = {
                let c = ck.borrow();
                (c.model.look == Lookahead::None && c.model.atom != Atomicity::Atomic, c.model.tokens.len(), c.model.pos)
            };
            if emit {
                ck.borrow_mut().model.tokens.push((true, start, None, None));
            }
            let mok = std::cell::Cell::new(true);
            let r = st.rule(*rule, |s| {
                let (r, ok) = exec(x, s, ck);
                mok.set(ok);
                r
            });
            {
                let mut c = ck.borrow_mut();
                if emit {
                    if mok.get() {
                        let p = c.model.pos;
                        c.model.tokens.push((false, p, Some(*rule), None));
                    } else {
                        c.model.tokens.truncate(idx);
                    }
                }
            }
            finish(r, mok.get(), op, ck)
        }
        Op::Push(x) => {
            let start = ck.borrow().model.pos;
            let mok = std::cell::Cell::new(true);
            let r = st.stack_push(|s| {
                let (r, ok) = exec(x, s, ck);
                mok.set(ok);
                r
            });
            if mok.get() {
                let mut c = ck.borrow_mut();
                let end = c.model.pos;
                // positions can only move forward inside the closure except through look-ahead/sequence restores
                let s = if start <= end { input[start..end].to_string() } else { String::new() };
                c.model.stack.push(s);
            }
            finish(r, mok.get(), op, ck)
        }
        Op::Restore(x) => {
            let save = ck.borrow().model.stack.clone();
            let mok = std::cell::Cell::new(true);
            let r = st.restore_on_err(|s| {
                let (r, ok) = exec(x, s, ck);
                mok.set(ok);
                r
            });
            if !mok.get() {
                ck.borrow_mut().model.stack = save;
            }
            finish(r, mok.get(), op, ck)
        }
        Op::Str(_) | Op::Insens(_) | Op::Range(..) | Op::CharBy(_) | Op::Skip(_) | Op::SkipUntil(_) | Op::Soi | Op::Eoi => {
            let pos = ck.borrow().model.pos;
            let m = model_terminal(input, pos, op);
            if let Some(p) = m {
                ck.borrow_mut().model.pos = p;
            }
            let r = match op {
                Op::Str(s) => st.match_string(s),
                Op::Insens(s) => st.match_insensitive(s),
                Op::Range(a, b) => st.match_range(*a..*b),
                Op::CharBy(k) => st.match_char_by(char_pred(*k)),
                Op::Skip(n) => st.skip(*n),
                Op::SkipUntil(v) => {
                    if v.len() == 3 {
                        ck.borrow_mut().skip_until3 = true;
                    }
                    let refs: Vec<&str> = v.iter().map(|s| s.as_str()).collect();
                    st.skip_until(&refs)
                }
                Op::Soi => st.start_of_input(),
                Op::Eoi => st.end_of_input(),
                _ => unreachable!(),
            };
            finish(r, m.is_some(), op, ck)
        }
        Op::Peek | Op::Pop => {
            let top = ck.borrow().model.stack.last().cloned();
            let Some(top) = top else {
                // documented: panics if the stack is empty
                ck.borrow_mut().expect_panic = true;
                let r = if *op == Op::Peek { st.stack_peek() } else { st.stack_pop() };
                // returning here means the documented panic did not happen
                let mut c = ck.borrow_mut();
                c.expect_panic = false;
                if c.mismatch.is_none() {
                    c.mismatch = Some((format!("c03:{}:no-panic-on-empty-stack", op_name(op)), format!("{} on an empty stack returned instead of panicking as documented", op_name(op))));
                }
                drop(c);
                return (r, false);
            };
            let pos = ck.borrow().model.pos;
            let ok = input[pos..].starts_with(top.as_str());
            {
                let mut c = ck.borrow_mut();
                if *op == Op::Pop {
                    c.model.stack.pop(); // popped whether or not the match succeeds
                }
                if ok {
                    c.model.pos = pos + top.len();
                }
            }
            let r = if *op == Op::Peek { st.stack_peek() } else { st.stack_pop() };
            finish(r, ok, op, ck)
        }
        Op::Drop => {
            let ok = ck.borrow_mut().model.stack.pop().is_some();
            finish(st.stack_drop(), ok, op, ck)
        }
        Op::MatchPeek | Op::PeekSlice(..) => {
            let (start, end, b2t) = match op {
                Op::MatchPeek => (0, None, false),
                Op::PeekSlice(a, b, d) => (*a, *b, *d),
                _ => unreachable!(),
            };
            let ok = {
                let mut c = ck.borrow_mut();
                let len = c.model.stack.len() as i64;
                let norm = |i: i64| if i > len { None } else if i >= 0 { Some(i) } else if len + i >= 0 { Some(len + i) } else { None };
                match (norm(start as i64), end.map(|e| norm(e as i64)).unwrap_or(Some(len))) {
                    (Some(s), Some(e)) => {
                        if e <= s {
                            true
                        } else {
                            let mut items: Vec<String> = c.model.stack[s as usize..e as usize].to_vec();
                            if !b2t {
                                items.reverse();
                            }
                            let mut p = c.model.pos;
                            let mut all = true;
                            for it in items {
                                if input[p..].starts_with(it.as_str()) {
                                    p += it.len();
                                } else {
                                    all = false;
                                    break;
                                }
                            }
                            if all {
                                c.model.pos = p;
                            }
                            all
                        }
                    }
                    _ => false,
                }
            };
            let r = match op {
                Op::MatchPeek => st.stack_match_peek(),
                _ => st.stack_match_peek_slice(start, end, if b2t { MatchDir::BottomToTop } else { MatchDir::TopToBottom }),
            };
            finish(r, ok, op, ck)
        }
        Op::MatchPop => {
            // pops as it goes, top first; the position moves only if everything matched
            let ok = {
                let mut c = ck.borrow_mut();
                let mut p = c.model.pos;
                let mut all = true;
                while let Some(top) = c.model.stack.pop() {
                    if input[p..].starts_with(top.as_str()) {
                        p += top.len();
                    } else {
                        all = false;
                        break;
                    }
                }
                if all {
                    c.model.pos = p;
                }
                all
            };
            finish(st.stack_match_pop(), ok, op, ck)
        }
        Op::PushLit(s) => {
            ck.borrow_mut().model.stack.push(s.clone());
            finish(st.stack_push_literal(s.clone()), true, op, ck)
        }
        Op::Tag(t) => {
            {
                let mut c = ck.borrow_mut();
                if c.model.look == Lookahead::None {
                    if let Some(last) = c.model.tokens.last_mut() {
                        if !last.0 {
                            last.3 = Some(TAGS[*t as usize % 3].to_string());
                        }
                    }
                }
            }
            finish(st.tag_node(TAGS[*t as usize % 3]), true, op, ck)
        }
    }
}

pub struct CaseResult {
    pub nontrivial: bool,
    pub skip_until3: bool,
    pub steps: usize,
}

pub fn case_json(prog: &Op, input: &str) -> Value {
    json!({"memchr": MEMCHR, "program": op_to_json(prog), "input": input})
}

pub fn run_case(prog: &Op, input: &str) -> Result<CaseResult, Fail> {
    let ck = RefCell::new(Ck {
        input,
        model: Model { pos: 0, tokens: vec![], stack: vec![], look: Lookahead::None, atom: Atomicity::NonAtomic },
        mismatch: None,
        expect_panic: false,
        nontrivial: false,
        skip_until3: false,
        steps: 0,
    });
    let res = catch(|| {
        let mok = std::cell::Cell::new(true);
        let r = pest::state::<u8, _>(input, |s| {
            let (r, ok) = exec(prog, s, &ck);
            mok.set(ok);
            r
        });
        (r.map(|pairs| pairs.tokens().map(|t| match t {
            pest::Token::Start { rule, pos } => (true, pos.pos(), rule),
            pest::Token::End { rule, pos } => (false, pos.pos(), rule),
        }).collect::<Vec<_>>()).map_err(|e| format!("{:?}", e.location)), mok.get())
    });
    let c = ck.borrow();
    let which = if MEMCHR { "memchr build" } else { "no-memchr build" };
    let fail = |sig: String, msg: String| Fail::new(sig, format!("[{which}] program {} on input {input:?}: {msg}", op_to_json(prog)), case_json(prog, input));
    match res {
        Err(p) => {
            if c.expect_panic && c.mismatch.is_none() {
                return Ok(CaseResult { nontrivial: c.nontrivial, skip_until3: c.skip_until3, steps: c.steps });
            }
            if let Some((sig, msg)) = &c.mismatch {
                return Err(fail(sig.clone(), format!("{msg} (then panicked: {p})")));
            }
            Err(fail("c03:panic".into(), format!("unexpected panic: {p}")))
        }
        Ok((r, mok)) => {
            if let Some((sig, msg)) = &c.mismatch {
                return Err(fail(sig.clone(), msg.clone()));
            }
            match r {
                Ok(toks) => {
                    if !mok {
                        return Err(fail("c03:state:result".into(), "pest::state returned Ok but the model fails".into()));
                    }
                    // the Pairs' token view must be the model's token list (rule of a Start = rule of its End)
                    let mut stack = vec![];
                    let mut want = vec![];
                    let mt = &c.model.tokens;
                    let mut rule_of_start = vec![0u8; mt.len()];
                    for (i, t) in mt.iter().enumerate() {
                        if t.0 {
                            stack.push(i);
                        } else if let Some(s) = stack.pop() {
                            rule_of_start[s] = t.2.unwrap_or(255);
                        }
                    }
                    for (i, t) in mt.iter().enumerate() {
                        want.push((t.0, t.1, if t.0 { rule_of_start[i] } else { t.2.unwrap_or(255) }));
                    }
                    if toks != want {
                        return Err(fail("c03:state:tokens".into(), format!("pest::state tokens {toks:?} differ from the model {want:?}")));
                    }
                }
                Err(_) => {
                    if mok {
                        return Err(fail("c03:state:result".into(), "pest::state returned Err but the model succeeds".into()));
                    }
                }
            }
            Ok(CaseResult { nontrivial: c.nontrivial, skip_until3: c.skip_until3, steps: c.steps })
        }
    }
}

// ------------------------------------------------------------------ generators
fn str_strategy() -> impl Strategy<Value = String> {
    (0..STRS.len()).prop_map(|i| STRS[i].to_string())
}

fn leaf() -> BoxedStrategy<Op> {
    prop_oneof![
        6 => str_strategy().prop_map(Op::Str),
        2 => prop_oneof![Just("A"), Just("aB"), Just("É"), Just("a€"), Just("")].prop_map(|s| Op::Insens(s.to_string())),
        2 => prop_oneof![Just(('a', 'c')), Just(('a', 'é')), Just(('€', '😀')), Just(('c', 'a')), Just(('b', 'b'))].prop_map(|(a, b)| Op::Range(a, b)),
        1 => (0u8..3).prop_map(Op::CharBy),
        2 => (0usize..4).prop_map(Op::Skip),
        4 => proptest::collection::vec(str_strategy(), 0..5).prop_map(Op::SkipUntil),
        1 => Just(Op::Soi),
        1 => Just(Op::Eoi),
        1 => Just(Op::Peek),
        2 => Just(Op::Pop),
        1 => Just(Op::Drop),
        1 => Just(Op::MatchPeek),
        1 => Just(Op::MatchPop),
        1 => (-3i32..=3, proptest::option::of(-3i32..=3), any::<bool>()).prop_map(|(a, b, d)| Op::PeekSlice(a, b, d)),
        1 => str_strategy().prop_map(Op::PushLit),
        1 => (0u8..3).prop_map(Op::Tag),
    ]
    .boxed()
}

pub fn prog_strategy() -> BoxedStrategy<Op> {
    leaf()
        .prop_recursive(5, 25, 4, |inner| {
            prop_oneof![
                4 => proptest::collection::vec(inner.clone(), 1..4).prop_map(Op::Seq),
                2 => proptest::collection::vec(inner.clone(), 1..4).prop_map(Op::Chain),
                3 => proptest::collection::vec(inner.clone(), 1..4).prop_map(Op::OrElse),
                2 => inner.clone().prop_map(|x| Op::Opt(Box::new(x))),
                2 => inner.clone().prop_map(|x| Op::Rep(Box::new(x))),
                3 => (any::<bool>(), inner.clone()).prop_map(|(p, x)| Op::Look(p, Box::new(x))),
                2 => (0u8..3, inner.clone()).prop_map(|(a, x)| Op::Atomic(a, Box::new(x))),
                4 => (0u8..4, inner.clone()).prop_map(|(r, x)| Op::Rule(r, Box::new(x))),
                3 => inner.clone().prop_map(|x| Op::Push(Box::new(x))),
                1 => inner.prop_map(|x| Op::Restore(Box::new(x))),
            ]
        })
        .boxed()
}

/// Programs dominated by rule / atomicity / tag nesting around sequences that fail late and whose failure is
/// absorbed: the shapes on which "what a failed sequence takes back" depends on the atomicity in force.
pub fn token_heavy_strategy() -> BoxedStrategy<Op> {
    let leaf = prop_oneof![
        4 => prop_oneof![Just("a"), Just("b"), Just("ab"), Just("")].prop_map(|s| Op::Str(s.to_string())),
        2 => Just(Op::Str("zz".into())), // fails on almost every input
        1 => (0u8..3).prop_map(Op::Tag),
        1 => Just(Op::Eoi),
        1 => (0usize..2).prop_map(Op::Skip),
    ];
    leaf.prop_recursive(6, 30, 4, |inner| {
        prop_oneof![
            6 => proptest::collection::vec(inner.clone(), 2..4).prop_map(Op::Seq),
            1 => proptest::collection::vec(inner.clone(), 2..3).prop_map(Op::Chain),
            2 => proptest::collection::vec(inner.clone(), 2..3).prop_map(Op::OrElse),
            3 => inner.clone().prop_map(|x| Op::Opt(Box::new(x))),
            1 => inner.clone().prop_map(|x| Op::Rep(Box::new(x))),
            1 => (any::<bool>(), inner.clone()).prop_map(|(p, x)| Op::Look(p, Box::new(x))),
            5 => (0u8..3, inner.clone()).prop_map(|(a, x)| Op::Atomic(a, Box::new(x))),
            6 => (0u8..4, inner.clone()).prop_map(|(r, x)| Op::Rule(r, Box::new(x))),
        ]
    })
    .boxed()
}

pub fn input_strategy() -> impl Strategy<Value = String> {
    proptest::collection::vec(0..INPUT_ALPHA.len(), 0..10).prop_map(|v| v.iter().map(|i| INPUT_ALPHA[*i]).collect())
}

fn check(ctx: &mut Ctx, prog: &Op, input: &str) -> Result<(), Fail> {
    ctx.eval();
    let r = run_case(prog, input)?;
    if r.nontrivial {
        ctx.nontrivial(&(prog, input));
        ctx.sample(|| case_json(prog, input));
    }
    if r.skip_until3 {
        ctx.class("skip_until-with-3-strings");
    }
    Ok(())
}

pub fn run(ctx: &mut Ctx) {
    let n = ctx.share(ctx.tier.pick(1_500_000, 30_000_000));
    let strat = (prog_strategy(), proptest::collection::vec(input_strategy(), 6));
    ctx.run_prop(n, 1, strat, |ctx, (prog, inputs)| {
        for i in inputs {
            check(ctx, prog, i)?;
        }
        Ok(())
    });
    // token-heavy stream: rule / atomic / tag nesting around late-failing sequences
    let strat = (token_heavy_strategy(), proptest::collection::vec(input_strategy(), 4));
    ctx.run_prop(n / 3, 2, strat, |ctx, (prog, inputs)| {
        ctx.class("stream:token-heavy");
        for i in inputs {
            check(ctx, prog, i)?;
        }
        Ok(())
    });
    // exhaustive skip_until block: all sets of <= 3 strings of length <= 2 over {a, b, é} x all inputs of length <= k
    let alpha = ['a', 'b', 'é'];
    let mut strings: Vec<String> = vec![String::new()];
    for a in alpha {
        strings.push(a.to_string());
        for b in alpha {
            strings.push(format!("{a}{b}"));
        }
    }
    let k = ctx.tier.pick(3, 4);
    let mut inputs = vec![String::new()];
    let mut frontier = vec![String::new()];
    for _ in 0..k {
        let mut next = vec![];
        for s in &frontier {
            for a in alpha {
                next.push(format!("{s}{a}"));
            }
        }
        inputs.extend(next.iter().cloned());
        frontier = next;
    }
    let ns = strings.len();
    let mut idx = 0u64;
    'outer: for n in 0..=3usize {
        let total = ns.pow(n as u32);
        for code in 0..total {
            idx += 1;
            if idx % ctx.nshards != ctx.shard {
                continue;
            }
            let mut set = vec![];
            let mut c = code;
            for _ in 0..n {
                set.push(strings[c % ns].clone());
                c /= ns;
            }
            // the skip is exercised from every start offset by a preceding skip(j)
            for input in &inputs {
                for j in 0..=input.chars().count().min(2) {
                    let prog = Op::Chain(vec![Op::Skip(j), Op::SkipUntil(set.clone())]);
                    if let Err(f) = check(ctx, &prog, input) {
                        if ctx.report(f) {
                            break 'outer;
                        }
                    }
                }
            }
        }
    }
    ctx.class_n(&format!("exhaustive-skip_until-inputs<={k}"), 1);
}

pub fn replay(case: &Value) -> Result<(), Fail> {
    let prog = op_from_json(&case["program"]);
    let input = case["input"].as_str().expect("input");
    run_case(&prog, input).map(|_| ())
}

pub const DEF: CheckDef = CheckDef {
    id: "C03",
    rule: "proptest-generated trees (depth <= 5, <= 25 nodes) over the public ParserState API - sequence, and_then chains, or_else chains, optional, repeat (closure refuses after 4 iterations), lookahead(+/-), atomic(x3), rule, stack_push, restore_on_err, match_string/insensitive/range/char_by, skip(n), skip_until(0-4 strings incl. empty and multi-byte), start/end_of_input, stack_peek/pop/drop/match_peek/match_pop/match_peek_slice(i,j,dir), stack_push_literal, tag_node - x 6 inputs of <= 10 characters over {a,b,c,A,e-acute,euro,emoji,space}; plus EVERY skip_until set of <= 3 strings of length <= 2 over {a,b,e-acute} x every input of length <= 3 (thorough 4) x start offsets 0-2. Oracle: a direct operational model of the documented contracts; after every operation the cfg hook's snapshot (position, token queue, stack contents, look-ahead, atomicity) is compared with the model, the position must be a char boundary, and the final pest::state result/tokens must match. Run once per build: with and without the memchr feature (both against the same model). Non-trivial = a failing sequence or a look-ahead whose body had changed position, tokens or stack before the restore; distinct = distinct (program, input).",
    assumptions: &[
        "where rustdoc is silent the model mirrors the code: a failing `rule` truncates its tokens only when it emitted a Start; optional/repeat/or_else keep whatever the failed closure left; stack_pop pops even when the match fails; stack_match_pop pops as it goes",
        "stack_peek/stack_pop on an empty stack must panic as documented (predicted panic)",
    ],
    floor: |t| t.pick(100_000, 1_000_000),
    shards: |_| 16,
    run,
    replay,
    journal: false,
    pre: None,
};
