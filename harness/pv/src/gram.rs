//! Abstract grammars, the canonical concrete-syntax printer, and the proptest strategies that
//! generate valid grammars by construction (acceptance by pest_meta is the second filter).

use proptest::prelude::*;

#[derive(Clone, Copy, Debug, PartialEq, Eq, Hash)]
pub enum Ty {
    Normal,
    Silent,
    Atomic,
    Compound,
    NonAtomic,
}

impl Ty {
    pub fn prefix(self) -> &'static str {
        match self {
            Ty::Normal => "",
            Ty::Silent => "_",
            Ty::Atomic => "@",
            Ty::Compound => "$",
            Ty::NonAtomic => "!",
        }
    }
}

#[derive(Clone, Debug, PartialEq, Eq, Hash)]
pub enum GE {
    Str(String),
    Insens(String),
    Range(char, char),
    /// reference to the user rule with this index (resolved modulo the number of rules)
    Ref(u8),
    Builtin(&'static str),
    /// WHITESPACE / COMMENT referenced explicitly
    Named(&'static str),
    PeekSlice(Option<i32>, Option<i32>),
    Pos(Box<GE>),
    Neg(Box<GE>),
    Seq(Box<GE>, Box<GE>),
    Choice(Box<GE>, Box<GE>),
    Opt(Box<GE>),
    Rep(Box<GE>),
    RepOnce(Box<GE>),
    RepExact(Box<GE>, u32),
    RepMin(Box<GE>, u32),
    RepMax(Box<GE>, u32),
    RepMinMax(Box<GE>, u32, u32),
    Push(Box<GE>),
    PushLit(String),
    Tag(Box<GE>, String),
}

#[derive(Clone, Debug, PartialEq, Eq, Hash)]
pub struct GRule {
    pub name: String,
    pub ty: Ty,
    pub expr: GE,
}

#[derive(Clone, Debug, PartialEq, Eq, Hash)]
pub struct Gram {
    pub rules: Vec<GRule>,
}

impl Gram {
    pub fn user_rules(&self) -> Vec<&GRule> {
        self.rules.iter().filter(|r| r.name != "WHITESPACE" && r.name != "COMMENT").collect()
    }
    pub fn has(&self, name: &str) -> bool {
        self.rules.iter().any(|r| r.name == name)
    }
}

// ------------------------------------------------------------------------------------------
// printer (canonical mode)

pub fn escape_str(s: &str) -> String {
    let mut o = String::new();
    for c in s.chars() {
        match c {
            '"' => o.push_str("\\\""),
            '\\' => o.push_str("\\\\"),
            '\n' => o.push_str("\\n"),
            '\r' => o.push_str("\\r"),
            '\t' => o.push_str("\\t"),
            '\0' => o.push_str("\\0"),
            c if (c as u32) < 0x20 || c as u32 == 0x7f => o.push_str(&format!("\\x{:02X}", c as u32)),
            c => o.push(c),
        }
    }
    o
}

pub fn escape_chr(c: char) -> String {
    match c {
        '\'' => "\\'".into(),
        '\\' => "\\\\".into(),
        '\n' => "\\n".into(),
        '\r' => "\\r".into(),
        '\t' => "\\t".into(),
        '\0' => "\\0".into(),
        c if (c as u32) < 0x20 || c as u32 == 0x7f => format!("\\x{:02X}", c as u32),
        c => c.to_string(),
    }
}

/// precedence levels: 0 choice, 1 sequence, 2 term (tag/prefix), 3 postfix operand / atom
fn prec(e: &GE) -> u8 {
    match e {
        GE::Choice(..) => 0,
        GE::Seq(..) => 1,
        GE::Tag(..) => 2,
        GE::Pos(..) | GE::Neg(..) => 3,
        GE::Opt(..) | GE::Rep(..) | GE::RepOnce(..) | GE::RepExact(..) | GE::RepMin(..) | GE::RepMax(..) | GE::RepMinMax(..) => 4,
        _ => 5,
    }
}

pub fn rule_name_of(g: &Gram, idx: u8) -> String {
    let users: Vec<&GRule> = g.user_rules();
    users[(idx as usize) % users.len()].name.clone()
}

pub fn print_expr(g: &Gram, e: &GE) -> String {
    fn paren_if(g: &Gram, e: &GE, cond: bool) -> String {
        if cond {
            format!("({})", print_expr(g, e))
        } else {
            print_expr(g, e)
        }
    }
    match e {
        GE::Str(s) => format!("\"{}\"", escape_str(s)),
        GE::Insens(s) => format!("^\"{}\"", escape_str(s)),
        GE::Range(a, b) => format!("'{}'..'{}'", escape_chr(*a), escape_chr(*b)),
        GE::Ref(i) => rule_name_of(g, *i),
        GE::Builtin(n) | GE::Named(n) => n.to_string(),
        GE::PeekSlice(a, b) => format!(
            "PEEK[{}..{}]",
            a.map(|x| x.to_string()).unwrap_or_default(),
            b.map(|x| x.to_string()).unwrap_or_default()
        ),
        // the grammar's term is  tag? prefix* node postfix*: a prefix operator applies to the
        // postfix-ed node, so a postfix operand may not be a prefix expression without parentheses
        GE::Pos(x) => format!("&{}", paren_if(g, x, prec(x) < 3)),
        GE::Neg(x) => format!("!{}", paren_if(g, x, prec(x) < 3)),
        GE::Seq(a, b) => format!("{} ~ {}", paren_if(g, a, prec(a) < 1), paren_if(g, b, prec(b) <= 1)),
        GE::Choice(a, b) => format!("{} | {}", paren_if(g, a, false), paren_if(g, b, prec(b) <= 0)),
        GE::Opt(x) => format!("{}?", paren_if(g, x, prec(x) < 4)),
        GE::Rep(x) => format!("{}*", paren_if(g, x, prec(x) < 4)),
        GE::RepOnce(x) => format!("{}+", paren_if(g, x, prec(x) < 4)),
        GE::RepExact(x, n) => format!("{}{{{}}}", paren_if(g, x, prec(x) < 4), n),
        GE::RepMin(x, n) => format!("{}{{{},}}", paren_if(g, x, prec(x) < 4), n),
        GE::RepMax(x, n) => format!("{}{{,{}}}", paren_if(g, x, prec(x) < 4), n),
        GE::RepMinMax(x, m, n) => format!("{}{{{},{}}}", paren_if(g, x, prec(x) < 4), m, n),
        GE::Push(x) => format!("PUSH({})", print_expr(g, x)),
        GE::PushLit(s) => format!("PUSH_LITERAL(\"{}\")", escape_str(s)),
        GE::Tag(x, t) => format!("#{} = {}", t, paren_if(g, x, prec(x) < 3)),
    }
}

pub fn print_grammar(g: &Gram) -> String {
    let mut out = String::new();
    for r in &g.rules {
        out.push_str(&format!("{} = {}{{ {} }}\n", r.name, r.ty.prefix(), print_expr(g, &r.expr)));
    }
    out
}

// ------------------------------------------------------------------------------------------
// syntactic approximations used only to *construct* grammars the validator accepts

fn resolve<'a>(g: &'a Gram, e: &GE) -> Option<&'a GRule> {
    match e {
        GE::Ref(i) => {
            let users = g.user_rules();
            Some(users[(*i as usize) % users.len()])
        }
        GE::Named(n) => g.rules.iter().find(|r| r.name == *n),
        _ => None,
    }
}

pub fn non_progressing(g: &Gram, e: &GE, trace: &mut Vec<String>) -> bool {
    match e {
        GE::Str(s) | GE::Insens(s) => s.is_empty(),
        GE::Builtin(n) => *n == "SOI" || *n == "EOI",
        GE::Ref(_) | GE::Named(_) => match resolve(g, e) {
            Some(r) if !trace.contains(&r.name) => {
                trace.push(r.name.clone());
                let v = non_progressing(g, &r.expr, trace);
                trace.pop();
                v
            }
            _ => false,
        },
        GE::Seq(a, b) => non_progressing(g, a, trace) && non_progressing(g, b, trace),
        GE::Choice(a, b) => non_progressing(g, a, trace) || non_progressing(g, b, trace),
        GE::Pos(_) | GE::Neg(_) | GE::Rep(_) | GE::Opt(_) | GE::RepMax(..) => true,
        GE::Range(..) | GE::PeekSlice(..) => false,
        GE::RepExact(x, n) | GE::RepMin(x, n) | GE::RepMinMax(x, n, _) => *n == 0 || non_progressing(g, x, trace),
        GE::Push(x) | GE::RepOnce(x) | GE::Tag(x, _) => non_progressing(g, x, trace),
        GE::PushLit(_) => true,
    }
}

pub fn non_failing(g: &Gram, e: &GE, trace: &mut Vec<String>) -> bool {
    match e {
        GE::Str(s) | GE::Insens(s) => s.is_empty(),
        GE::Builtin(_) => false,
        GE::Ref(_) | GE::Named(_) => match resolve(g, e) {
            Some(r) if !trace.contains(&r.name) => {
                trace.push(r.name.clone());
                let v = non_failing(g, &r.expr, trace);
                trace.pop();
                v
            }
            _ => false,
        },
        GE::Opt(_) | GE::Rep(_) | GE::RepMax(..) => true,
        GE::Seq(a, b) => non_failing(g, a, trace) && non_failing(g, b, trace),
        GE::Choice(a, b) => non_failing(g, a, trace) || non_failing(g, b, trace),
        GE::Range(..) | GE::PeekSlice(..) | GE::Neg(_) => false,
        GE::RepExact(x, n) | GE::RepMin(x, n) | GE::RepMinMax(x, n, _) => *n == 0 || non_failing(g, x, trace),
        GE::RepOnce(x) | GE::Push(x) | GE::Pos(x) | GE::Tag(x, _) => non_failing(g, x, trace),
        GE::PushLit(_) => true,
    }
}

/// A terminal that always consumes at least one character when it matches and can fail.
fn guard_terminal(k: u8) -> GE {
    match k % 6 {
        0 => GE::Str("a".into()),
        1 => GE::Str("b".into()),
        2 => GE::Range('a', 'c'),
        3 => GE::Str("ab".into()),
        4 => GE::Builtin("ASCII_DIGIT"),
        _ => GE::Str("c".into()),
    }
}

/// Repairs an arbitrary grammar so that the validator's conditions hold by construction:
/// * a backward or self reference (rule j <= i from rule i) is always preceded by a consuming
///   terminal, so no cycle can be left-recursive;
/// * bodies of `* + {n,}` and non-final choice alternatives that may match without failing or
///   without progressing are prefixed with a consuming terminal;
/// * WHITESPACE / COMMENT bodies likewise; they never reference user rules backwards.
pub fn repair(g: &mut Gram) {
    let n_users = g.user_rules().len();
    // pass 1: guard backward references
    let names: Vec<String> = g.rules.iter().map(|r| r.name.clone()).collect();
    let user_idx: Vec<Option<usize>> = {
        let mut k = 0;
        names
            .iter()
            .map(|n| {
                if n == "WHITESPACE" || n == "COMMENT" {
                    None
                } else {
                    k += 1;
                    Some(k - 1)
                }
            })
            .collect()
    };
    fn guard_refs(e: &mut GE, my_idx: usize, n_users: usize, salt: &mut u8) {
        match e {
            GE::Ref(i) => {
                let target = (*i as usize) % n_users;
                if target <= my_idx {
                    *salt = salt.wrapping_add(1);
                    let r = std::mem::replace(e, GE::Str(String::new()));
                    *e = GE::Seq(Box::new(guard_terminal(*salt)), Box::new(r));
                }
            }
            GE::Named(_) => {
                // explicit WHITESPACE/COMMENT reference: they never call user rules (see below)
            }
            GE::Pos(x) | GE::Neg(x) | GE::Opt(x) | GE::Rep(x) | GE::RepOnce(x) | GE::RepExact(x, _) | GE::RepMin(x, _)
            | GE::RepMax(x, _) | GE::RepMinMax(x, _, _) | GE::Push(x) | GE::Tag(x, _) => guard_refs(x, my_idx, n_users, salt),
            GE::Seq(a, b) | GE::Choice(a, b) => {
                guard_refs(a, my_idx, n_users, salt);
                guard_refs(b, my_idx, n_users, salt);
            }
            _ => {}
        }
    }
    fn strip_refs(e: &mut GE, salt: &mut u8) {
        match e {
            GE::Ref(_) | GE::Named(_) => {
                *salt = salt.wrapping_add(1);
                *e = guard_terminal(*salt);
            }
            GE::Pos(x) | GE::Neg(x) | GE::Opt(x) | GE::Rep(x) | GE::RepOnce(x) | GE::RepExact(x, _) | GE::RepMin(x, _)
            | GE::RepMax(x, _) | GE::RepMinMax(x, _, _) | GE::Push(x) | GE::Tag(x, _) => strip_refs(x, salt),
            GE::Seq(a, b) | GE::Choice(a, b) => {
                strip_refs(a, salt);
                strip_refs(b, salt);
            }
            _ => {}
        }
    }
    let mut salt = 0u8;
    for (k, r) in g.rules.iter_mut().enumerate() {
        match user_idx[k] {
            Some(i) => guard_refs(&mut r.expr, i, n_users, &mut salt),
            None => strip_refs(&mut r.expr, &mut salt),
        }
    }
    // pass 2: repetition bodies, non-final alternatives (iterate to a fixpoint, bottom-up)
    for _ in 0..3 {
        let snapshot = g.clone();
        let mut changed = false;
        fn fix(g: &Gram, e: &mut GE, salt: &mut u8, changed: &mut bool) {
            match e {
                GE::Pos(x) | GE::Neg(x) | GE::Opt(x) | GE::RepExact(x, _) | GE::RepMax(x, _) | GE::RepMinMax(x, _, _)
                | GE::Push(x) | GE::Tag(x, _) => fix(g, x, salt, changed),
                GE::Rep(x) | GE::RepOnce(x) | GE::RepMin(x, _) => {
                    fix(g, x, salt, changed);
                    if non_failing(g, x, &mut vec![]) || non_progressing(g, x, &mut vec![]) {
                        *salt = salt.wrapping_add(1);
                        let inner = std::mem::replace(&mut **x, GE::Str(String::new()));
                        **x = GE::Seq(Box::new(guard_terminal(*salt)), Box::new(inner));
                        *changed = true;
                    }
                }
                GE::Seq(a, b) => {
                    fix(g, a, salt, changed);
                    fix(g, b, salt, changed);
                }
                GE::Choice(a, b) => {
                    fix(g, a, salt, changed);
                    fix(g, b, salt, changed);
                    if non_failing(g, a, &mut vec![]) {
                        *salt = salt.wrapping_add(1);
                        let inner = std::mem::replace(&mut **a, GE::Str(String::new()));
                        **a = GE::Seq(Box::new(guard_terminal(*salt)), Box::new(inner));
                        *changed = true;
                    }
                }
                _ => {}
            }
        }
        for r in g.rules.iter_mut() {
            fix(&snapshot, &mut r.expr, &mut salt, &mut changed);
            if r.name == "WHITESPACE" || r.name == "COMMENT" {
                if non_failing(&snapshot, &r.expr, &mut vec![]) || non_progressing(&snapshot, &r.expr, &mut vec![]) {
                    salt = salt.wrapping_add(1);
                    let inner = std::mem::replace(&mut r.expr, GE::Str(String::new()));
                    r.expr = GE::Seq(Box::new(guard_terminal(salt)), Box::new(inner));
                    changed = true;
                }
            }
        }
        if !changed {
            break;
        }
    }
}

// ------------------------------------------------------------------------------------------
// strategies

#[derive(Clone, Debug)]
pub struct GenCfg {
    pub extras: bool,
    pub stack_ops: bool,
    pub max_rules: usize,
    pub ws_prob: f64,
    pub allow_shadow: bool,
    pub depth: u32,
}

impl GenCfg {
    pub fn standard(extras: bool) -> GenCfg {
        GenCfg { extras, stack_ops: true, max_rules: 5, ws_prob: 0.5, allow_shadow: true, depth: 4 }
    }
}

pub const STRS: [&str; 11] = ["", "a", "b", "ab", "ba", "c", "é", " ", "%", "\n", "\r\n"];
pub const INSENS: [&str; 6] = ["a", "Ab", "é", "É", "Ω", "bÉ"];
pub const RANGES: [(char, char); 4] = [('a', 'c'), ('b', 'b'), ('a', 'é'), ('c', 'a')];
pub const BUILTINS: [&str; 10] =
    ["ANY", "SOI", "EOI", "NEWLINE", "ASCII_DIGIT", "ASCII_ALPHA", "ASCII_ALPHANUMERIC", "ASCII", "LETTER", "ASCII_HEX_DIGIT"];
pub const SHADOW_NAMES: [&str; 3] = ["ASCII_DIGIT", "NEWLINE", "LETTER"];

pub fn skipper_shape(strings: &[&str]) -> GE {
    let mut it = strings.iter().rev();
    let mut alt = GE::Str(it.next().unwrap().to_string());
    for s in it {
        alt = GE::Choice(Box::new(GE::Str(s.to_string())), Box::new(alt));
    }
    GE::Rep(Box::new(GE::Seq(Box::new(GE::Neg(Box::new(alt))), Box::new(GE::Builtin("ANY")))))
}

fn leaf(cfg: &GenCfg) -> BoxedStrategy<GE> {
    let mut opts: Vec<(u32, BoxedStrategy<GE>)> = vec![
        (8, (0..STRS.len()).prop_map(|i| GE::Str(STRS[i].to_string())).boxed()),
        (2, (0..INSENS.len()).prop_map(|i| GE::Insens(INSENS[i].to_string())).boxed()),
        (3, (0..RANGES.len()).prop_map(|i| GE::Range(RANGES[i].0, RANGES[i].1)).boxed()),
        (4, (0..BUILTINS.len()).prop_map(|i| GE::Builtin(BUILTINS[i])).boxed()),
        (8, any::<u8>().prop_map(GE::Ref).boxed()),
        (1, prop_oneof![Just(GE::Named("WHITESPACE")), Just(GE::Named("COMMENT"))].boxed()),
        // the shape the skipper pass rewrites (in atomic rules): (!(s1 | s2 | ..) ~ ANY)*
        (1, proptest::collection::vec(0..STRS.len(), 1..5).prop_map(|ix| skipper_shape(&ix.iter().map(|i| STRS[*i]).collect::<Vec<_>>())).boxed()),
    ];
    if cfg.stack_ops {
        opts.push((
            3,
            prop_oneof![
                Just(GE::Builtin("POP")),
                Just(GE::Builtin("PEEK")),
                Just(GE::Builtin("DROP")),
                Just(GE::Builtin("PEEK_ALL")),
                Just(GE::Builtin("POP_ALL")),
            ]
            .boxed(),
        ));
        opts.push((
            1,
            (proptest::option::of(-3i32..=3), proptest::option::of(-3i32..=3)).prop_map(|(a, b)| GE::PeekSlice(a, b)).boxed(),
        ));
        if cfg.extras {
            opts.push((1, (0..STRS.len()).prop_map(|i| GE::PushLit(STRS[i].to_string())).boxed()));
        }
    }
    proptest::strategy::Union::new_weighted(opts).boxed()
}

pub fn expr_strategy(cfg: &GenCfg) -> BoxedStrategy<GE> {
    let cfg2 = cfg.clone();
    leaf(cfg)
        .prop_recursive(cfg.depth, 14, 2, move |inner| {
            let mut opts: Vec<(u32, BoxedStrategy<GE>)> = vec![
                (6, (inner.clone(), inner.clone()).prop_map(|(a, b)| GE::Seq(Box::new(a), Box::new(b))).boxed()),
                (4, (inner.clone(), inner.clone()).prop_map(|(a, b)| GE::Choice(Box::new(a), Box::new(b))).boxed()),
                (2, inner.clone().prop_map(|a| GE::Opt(Box::new(a))).boxed()),
                (3, inner.clone().prop_map(|a| GE::Rep(Box::new(a))).boxed()),
                (2, inner.clone().prop_map(|a| GE::RepOnce(Box::new(a))).boxed()),
                (1, (inner.clone(), 1u32..=3).prop_map(|(a, n)| GE::RepExact(Box::new(a), n)).boxed()),
                (1, (inner.clone(), 0u32..=3).prop_map(|(a, n)| GE::RepMin(Box::new(a), n)).boxed()),
                (1, (inner.clone(), 1u32..=3).prop_map(|(a, n)| GE::RepMax(Box::new(a), n)).boxed()),
                (1, (inner.clone(), 0u32..=3, 0u32..=2).prop_map(|(a, m, d)| GE::RepMinMax(Box::new(a), m, (m + d).max(1))).boxed()),
                (2, inner.clone().prop_map(|a| GE::Pos(Box::new(a))).boxed()),
                (2, inner.clone().prop_map(|a| GE::Neg(Box::new(a))).boxed()),
            ];
            if cfg2.stack_ops {
                opts.push((3, inner.clone().prop_map(|a| GE::Push(Box::new(a))).boxed()));
            }
            if cfg2.extras {
                opts.push((2, (inner.clone(), 0u8..3).prop_map(|(a, t)| GE::Tag(Box::new(a), format!("t{t}"))).boxed()));
            }
            proptest::strategy::Union::new_weighted(opts)
        })
        .boxed()
}

/// `option::weighted` that tolerates probability 0 (always None) and 1 (always Some).
pub fn opt_weighted<S: Strategy + 'static>(p: f64, s: S) -> BoxedStrategy<Option<S::Value>>
where
    S::Value: Clone + std::fmt::Debug + 'static,
{
    if p <= 0.0 {
        Just(None).boxed()
    } else if p >= 1.0 {
        s.prop_map(Some).boxed()
    } else {
        proptest::option::weighted(p, s).boxed()
    }
}

/// Expressions dominated by stack operations under sequences, alternatives, optionals,
/// repetitions and predicates: nested snapshots, pops across snapshot lines, failing alternatives
/// after pops, re-pushes. Literals are kept tiny so that derivations often match.
pub fn stack_heavy_expr() -> BoxedStrategy<GE> {
    let lit = || prop_oneof![Just("a"), Just("b"), Just(""), Just("ab")].prop_map(|s| GE::Str(s.to_string()));
    let leaf = prop_oneof![
        5 => lit().prop_map(|l| GE::Push(Box::new(l))),
        4 => Just(GE::Builtin("POP")),
        2 => Just(GE::Builtin("PEEK")),
        2 => Just(GE::Builtin("DROP")),
        1 => Just(GE::Builtin("PEEK_ALL")),
        1 => Just(GE::Builtin("POP_ALL")),
        1 => (proptest::option::of(-2i32..=2), proptest::option::of(-2i32..=2)).prop_map(|(a, b)| GE::PeekSlice(a, b)),
        3 => lit(),
        1 => any::<u8>().prop_map(GE::Ref),
    ];
    leaf.prop_recursive(5, 24, 3, |inner| {
        prop_oneof![
            6 => (inner.clone(), inner.clone()).prop_map(|(a, b)| GE::Seq(Box::new(a), Box::new(b))),
            4 => (inner.clone(), inner.clone()).prop_map(|(a, b)| GE::Choice(Box::new(a), Box::new(b))),
            3 => inner.clone().prop_map(|a| GE::Opt(Box::new(a))),
            1 => inner.clone().prop_map(|a| GE::Rep(Box::new(a))),
            1 => inner.clone().prop_map(|a| GE::RepOnce(Box::new(a))),
            1 => inner.clone().prop_map(|a| GE::Pos(Box::new(a))),
            1 => inner.clone().prop_map(|a| GE::Neg(Box::new(a))),
            1 => inner.clone().prop_map(|a| GE::Push(Box::new(a))),
            1 => (inner, 1u32..=2).prop_map(|(a, n)| GE::RepMax(Box::new(a), n)),
        ]
    })
    .boxed()
}

/// Needle sets in which one string contains another (as a prefix or not) or shares its first byte.
pub const NEEDLE_SETS: [&[&str]; 9] = [&["\n", "\r\n"], &["a", "ba"], &["b", "ab"], &["a", "ab"], &["ab", "b", "a"], &["é", "aé"], &["%", " %"], &["ab", "a", "ba", "b"], &["c"]];

/// Expressions made of terminals: adjacent literals (sensitive / insensitive, ASCII / non-ASCII), ranges, the
/// skipper shape over related needle sets, each optionally under `? * +`, joined by `~` and `|`.
pub fn terminal_heavy_expr() -> BoxedStrategy<GE> {
    let lit = || (0..STRS.len()).prop_map(|i| GE::Str(STRS[i].to_string()));
    let ins = || (0..INSENS.len()).prop_map(|i| GE::Insens(INSENS[i].to_string()));
    let leaf = prop_oneof![
        5 => lit(),
        4 => ins(),
        2 => (0..RANGES.len()).prop_map(|i| GE::Range(RANGES[i].0, RANGES[i].1)),
        4 => (0..NEEDLE_SETS.len()).prop_map(|i| skipper_shape(NEEDLE_SETS[i])),
        1 => prop_oneof![Just(GE::Builtin("ANY")), Just(GE::Builtin("NEWLINE")), Just(GE::Builtin("ASCII_ALPHA"))],
        1 => any::<u8>().prop_map(GE::Ref),
    ];
    leaf.prop_recursive(3, 12, 3, |inner| {
        prop_oneof![
            8 => (inner.clone(), inner.clone()).prop_map(|(a, b)| GE::Seq(Box::new(a), Box::new(b))),
            3 => (inner.clone(), inner.clone()).prop_map(|(a, b)| GE::Choice(Box::new(a), Box::new(b))),
            1 => inner.clone().prop_map(|a| GE::Opt(Box::new(a))),
            1 => inner.clone().prop_map(|a| GE::Rep(Box::new(a))),
            1 => inner.prop_map(|a| GE::RepOnce(Box::new(a))),
        ]
    })
    .boxed()
}

/// A grammar of 1-3 terminal-heavy rules, mostly atomic or compound-atomic, with WHITESPACE / COMMENT half of the time.
pub fn terminal_heavy_grammar() -> BoxedStrategy<Gram> {
    let ty = prop_oneof![4 => Just(Ty::Atomic), 2 => Just(Ty::Compound), 2 => Just(Ty::Normal), 1 => Just(Ty::Silent), 1 => Just(Ty::NonAtomic)];
    (proptest::collection::vec((ty, terminal_heavy_expr()), 1..=3), opt_weighted(0.4, (ty_strategy(), ws_body())), opt_weighted(0.3, (ty_strategy(), comment_body())))
        .prop_map(|(rules, ws, cm)| {
            let mut g = Gram { rules: vec![] };
            for (i, (ty, expr)) in rules.into_iter().enumerate() {
                g.rules.push(GRule { name: format!("r{i}"), ty, expr });
            }
            if let Some((ty, body)) = ws {
                g.rules.push(GRule { name: "WHITESPACE".into(), ty, expr: body });
            }
            if let Some((ty, body)) = cm {
                g.rules.push(GRule { name: "COMMENT".into(), ty, expr: body });
            }
            repair(&mut g);
            g
        })
        .boxed()
}

/// Stack loops: two or three pushes, then a stack-consuming body under `+ * ? {1,3}` (directly, through a rule, or
/// inside a small sequence), then something that reads the stack again; every rule modifier. The shape on which
/// "what a failing iteration leaves on the stack" decides the rest of the parse.
pub fn stack_loop_grammar() -> BoxedStrategy<Gram> {
    let lit = || prop_oneof![Just("a"), Just("b"), Just("ab"), Just("")].prop_map(|s| GE::Str(s.to_string()));
    let stack_op = || prop_oneof![4 => Just("POP"), 2 => Just("PEEK"), 1 => Just("POP_ALL"), 1 => Just("DROP"), 1 => Just("PEEK_ALL")].prop_map(GE::Builtin);
    let body = prop_oneof![
        4 => stack_op(),
        3 => Just(GE::Ref(1)),
        1 => (stack_op(), lit()).prop_map(|(o, l)| GE::Seq(Box::new(o), Box::new(GE::Opt(Box::new(l))))),
        1 => (lit(), stack_op()).prop_map(|(l, o)| GE::Seq(Box::new(l), Box::new(o))),
    ];
    let tail = prop_oneof![3 => stack_op(), 1 => lit(), 1 => Just(GE::Builtin("EOI")), 1 => Just(GE::Str(String::new()))];
    let ty0 = prop_oneof![3 => Just(Ty::Atomic), 3 => Just(Ty::Compound), 2 => Just(Ty::Normal), 1 => Just(Ty::Silent), 1 => Just(Ty::NonAtomic)];
    (ty0, ty_strategy(), proptest::collection::vec(lit(), 2..=3), body, 0u8..6, tail, stack_op())
        .prop_map(|(t0, t1, pushes, body, op, tail, r1body)| {
            let looped = match op {
                0 | 5 => GE::RepOnce(Box::new(body)),
                1 => GE::Rep(Box::new(body)),
                2 => GE::Opt(Box::new(body)),
                3 => GE::RepMinMax(Box::new(body), 1, 3),
                _ => body,
            };
            let mut e = GE::Seq(Box::new(looped), Box::new(tail));
            for p in pushes.into_iter().rev() {
                e = GE::Seq(Box::new(GE::Push(Box::new(p))), Box::new(e));
            }
            let mut g = Gram { rules: vec![GRule { name: "r0".into(), ty: t0, expr: e }, GRule { name: "r1".into(), ty: t1, expr: r1body }] };
            repair(&mut g);
            g
        })
        .boxed()
}

/// A grammar of 1-3 stack-heavy rules (no implicit whitespace, any modifier).
pub fn stack_heavy_grammar() -> BoxedStrategy<Gram> {
    proptest::collection::vec((ty_strategy(), stack_heavy_expr()), 1..=3)
        .prop_map(|rules| {
            let mut g = Gram { rules: vec![] };
            for (i, (ty, expr)) in rules.into_iter().enumerate() {
                g.rules.push(GRule { name: format!("r{i}"), ty, expr });
            }
            repair(&mut g);
            g
        })
        .boxed()
}

fn ty_strategy() -> impl Strategy<Value = Ty> {
    prop_oneof![
        5 => Just(Ty::Normal),
        2 => Just(Ty::Silent),
        2 => Just(Ty::Atomic),
        2 => Just(Ty::Compound),
        2 => Just(Ty::NonAtomic),
    ]
}

fn ws_body() -> impl Strategy<Value = GE> {
    prop_oneof![
        4 => Just(GE::Str(" ".into())),
        1 => Just(GE::Choice(Box::new(GE::Str(" ".into())), Box::new(GE::Str("\n".into())))),
        1 => Just(GE::Builtin("NEWLINE")),
        1 => Just(GE::Seq(Box::new(GE::Str(" ".into())), Box::new(GE::Opt(Box::new(GE::Str(" ".into())))))),
    ]
}
fn comment_body() -> impl Strategy<Value = GE> {
    prop_oneof![
        3 => Just(GE::Str("%".into())),
        1 => Just(GE::Seq(Box::new(GE::Str("%".into())), Box::new(GE::Rep(Box::new(GE::Str("b".into())))))),
        1 => Just(GE::Seq(Box::new(GE::Str("%".into())), Box::new(GE::Seq(Box::new(GE::Rep(Box::new(GE::Seq(Box::new(GE::Neg(Box::new(GE::Str("%".into())))), Box::new(GE::Builtin("ANY")))))), Box::new(GE::Str("%".into())))))),
    ]
}

/// The main grammar strategy. `force_stack_free` and friends are expressed through `cfg`.
pub fn grammar_strategy(cfg: GenCfg) -> BoxedStrategy<Gram> {
    let e = expr_strategy(&cfg);
    let n = 1..=cfg.max_rules;
    let cfg2 = cfg.clone();
    (
        proptest::collection::vec((ty_strategy(), e), n),
        opt_weighted(cfg.ws_prob, (ty_strategy(), ws_body())),
        opt_weighted(cfg.ws_prob * 0.6, (ty_strategy(), comment_body())),
        opt_weighted(if cfg.allow_shadow { 0.08 } else { 0.0 }, (0..SHADOW_NAMES.len(), any::<u8>())),
    )
        .prop_map(move |(rules, ws, cm, shadow)| {
            let mut g = Gram { rules: vec![] };
            for (i, (ty, expr)) in rules.into_iter().enumerate() {
                g.rules.push(GRule { name: format!("r{i}"), ty, expr });
            }
            if let Some((k, which)) = shadow {
                let idx = (which as usize) % g.rules.len();
                g.rules[idx].name = SHADOW_NAMES[k].to_string();
            }
            if let Some((ty, body)) = ws {
                g.rules.push(GRule { name: "WHITESPACE".into(), ty, expr: body });
            }
            if let Some((ty, body)) = cm {
                g.rules.push(GRule { name: "COMMENT".into(), ty, expr: body });
            }
            // explicit WHITESPACE/COMMENT references only if defined
            fn drop_named(g_has_ws: bool, g_has_cm: bool, e: &mut GE) {
                match e {
                    GE::Named(n) => {
                        if (*n == "WHITESPACE" && !g_has_ws) || (*n == "COMMENT" && !g_has_cm) {
                            *e = GE::Str(" ".into());
                        }
                    }
                    GE::Pos(x) | GE::Neg(x) | GE::Opt(x) | GE::Rep(x) | GE::RepOnce(x) | GE::RepExact(x, _) | GE::RepMin(x, _)
                    | GE::RepMax(x, _) | GE::RepMinMax(x, _, _) | GE::Push(x) | GE::Tag(x, _) => drop_named(g_has_ws, g_has_cm, x),
                    GE::Seq(a, b) | GE::Choice(a, b) => {
                        drop_named(g_has_ws, g_has_cm, a);
                        drop_named(g_has_ws, g_has_cm, b);
                    }
                    _ => {}
                }
            }
            let (hw, hc) = (g.has("WHITESPACE"), g.has("COMMENT"));
            for r in g.rules.iter_mut() {
                drop_named(hw, hc, &mut r.expr);
            }
            if cfg2.extras {
                fix_tags(&mut g);
            }
            repair(&mut g);
            g
        })
        .boxed()
}

/// grammar-extras rejects tags on silent rules and built-ins ("will not appear in the output"):
/// such tags are dropped by construction.
pub fn fix_tags(g: &mut Gram) {
    let snapshot = g.clone();
    fn target_ok(g: &Gram, e: &GE) -> bool {
        match e {
            GE::Ref(i) => {
                let users = g.user_rules();
                users[(*i as usize) % users.len()].ty != Ty::Silent
            }
            GE::Named(n) => g.rules.iter().find(|r| r.name == *n).map(|r| r.ty != Ty::Silent).unwrap_or(true),
            GE::Builtin(_) => false,
            GE::Rep(x) | GE::RepMinMax(x, _, _) | GE::RepMax(x, _) | GE::RepMin(x, _) | GE::RepOnce(x) | GE::RepExact(x, _)
            | GE::Opt(x) | GE::Push(x) | GE::Pos(x) | GE::Neg(x) => target_ok(g, x),
            _ => true,
        }
    }
    fn walk(g: &Gram, e: &mut GE) {
        match e {
            GE::Tag(x, _) => {
                walk(g, x);
                if !target_ok(g, x) {
                    let inner = std::mem::replace(&mut **x, GE::Str(String::new()));
                    *e = inner;
                }
            }
            GE::Pos(x) | GE::Neg(x) | GE::Opt(x) | GE::Rep(x) | GE::RepOnce(x) | GE::RepExact(x, _) | GE::RepMin(x, _)
            | GE::RepMax(x, _) | GE::RepMinMax(x, _, _) | GE::Push(x) => walk(g, x),
            GE::Seq(a, b) | GE::Choice(a, b) => {
                walk(g, a);
                walk(g, b);
            }
            _ => {}
        }
    }
    for r in g.rules.iter_mut() {
        walk(&snapshot, &mut r.expr);
    }
}

pub fn uses_stack(g: &Gram) -> bool {
    fn w(e: &GE) -> bool {
        match e {
            GE::Push(_) | GE::PushLit(_) | GE::PeekSlice(..) => true,
            GE::Builtin(n) => matches!(*n, "POP" | "PEEK" | "DROP" | "PEEK_ALL" | "POP_ALL"),
            GE::Pos(x) | GE::Neg(x) | GE::Opt(x) | GE::Rep(x) | GE::RepOnce(x) | GE::RepExact(x, _) | GE::RepMin(x, _)
            | GE::RepMax(x, _) | GE::RepMinMax(x, _, _) | GE::Tag(x, _) => w(x),
            GE::Seq(a, b) | GE::Choice(a, b) => w(a) || w(b),
            _ => false,
        }
    }
    g.rules.iter().any(|r| w(&r.expr))
}
