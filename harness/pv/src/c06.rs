//! C06 — validation guarantees termination (soundness) and accepts well-formed grammars
//! (completeness). Soundness: for every ACCEPTED stack-free grammar the reference evaluator, run
//! over the optimized rules that actually execute, must never prove divergence (re-entry of an
//! active (rule, position, atomicity) or a repetition iteration that consumes nothing). A
//! divergence verdict is demonstrated on the real VM in a child process before it is reported.

use crate::c01::case_json;
use crate::c05::pick_alphabet;
use crate::fw::*;
use crate::gram::*;
use crate::inputs::*;
use crate::refsem::{self, Outcome};
use crate::vmrun::*;
use proptest::prelude::*;
use serde_json::{json, Value};
use std::collections::{HashMap, HashSet};

fn refs_of(g: &Gram, e: &GE, out: &mut HashSet<String>) {
    match e {
        GE::Ref(i) => {
            out.insert(rule_name_of(g, *i));
        }
        GE::Named(n) => {
            out.insert(n.to_string());
        }
        GE::Builtin(n) => {
            if g.has(n) {
                out.insert(n.to_string());
            }
        }
        GE::Pos(x) | GE::Neg(x) | GE::Opt(x) | GE::Rep(x) | GE::RepOnce(x) | GE::RepExact(x, _) | GE::RepMin(x, _)
        | GE::RepMax(x, _) | GE::RepMinMax(x, _, _) | GE::Push(x) | GE::Tag(x, _) => refs_of(g, x, out),
        GE::Seq(a, b) | GE::Choice(a, b) => {
            refs_of(g, a, out);
            refs_of(g, b, out);
        }
        _ => {}
    }
}

pub fn has_cycle(g: &Gram) -> bool {
    let mut edges: HashMap<String, HashSet<String>> = HashMap::new();
    for r in &g.rules {
        let mut s = HashSet::new();
        refs_of(g, &r.expr, &mut s);
        edges.insert(r.name.clone(), s);
    }
    // DFS for a cycle
    fn reach(edges: &HashMap<String, HashSet<String>>, from: &str, target: &str, seen: &mut HashSet<String>) -> bool {
        for n in edges.get(from).into_iter().flatten() {
            if n == target {
                return true;
            }
            if seen.insert(n.clone()) && reach(edges, n, target, seen) {
                return true;
            }
        }
        false
    }
    g.rules.iter().any(|r| reach(&edges, &r.name, &r.name, &mut HashSet::new()))
}

fn has_repetition(g: &Gram) -> bool {
    fn w(e: &GE) -> bool {
        match e {
            GE::Rep(_) | GE::RepOnce(_) | GE::RepMin(..) | GE::RepExact(..) | GE::RepMax(..) | GE::RepMinMax(..) => true,
            GE::Pos(x) | GE::Neg(x) | GE::Opt(x) | GE::Push(x) | GE::Tag(x, _) => w(x),
            GE::Seq(a, b) | GE::Choice(a, b) => w(a) || w(b),
            _ => false,
        }
    }
    g.rules.iter().any(|r| w(&r.expr))
}

/// Run the real VM on the case in a child process with a small stack. Returns a description of
/// how it failed to terminate, or None if it terminated normally.
pub fn vm_child_nontermination(text: &str, rule: &str, input: &str) -> Option<String> {
    let dir = std::path::PathBuf::from(format!("{VERIF}/work/runs/vmrun-{}", std::process::id()));
    let _ = std::fs::create_dir_all(&dir);
    let p = dir.join(format!("case-{:016x}.json", hash_of(&(text, rule, input))));
    std::fs::write(&p, json!({"grammar": text, "rule": rule, "input": input, "limit": 3_000_000}).to_string()).ok()?;
    let exe = std::env::current_exe().ok()?;
    let out = std::process::Command::new(exe).arg("vmrun").arg(&p).output().ok()?;
    let _ = std::fs::remove_file(&p);
    let _ = std::fs::remove_dir(&dir);
    use std::os::unix::process::ExitStatusExt;
    if let Some(sig) = out.status.signal() {
        return Some(format!("the VM process was killed by signal {sig} (stack overflow)"));
    }
    let stdout = String::from_utf8_lossy(&out.stdout).to_string();
    if stdout.contains("RESULT limit") {
        return Some("the VM made 3,000,000 combinator calls on this input without finishing (endless iteration)".into());
    }
    if stdout.contains("RESULT") {
        return None;
    }
    Some(format!("the VM process ended abnormally: status {:?}", out.status.code()))
}

/// `pv vmrun <file>` entry point.
pub fn vmrun_main(path: &str) -> i32 {
    let v: Value = serde_json::from_str(&std::fs::read_to_string(path).expect("case file")).expect("json");
    let text = v["grammar"].as_str().unwrap().to_string();
    let rule = v["rule"].as_str().unwrap().to_string();
    let input = v["input"].as_str().unwrap().to_string();
    let limit = v["limit"].as_u64().unwrap_or(0) as usize;
    let h = std::thread::Builder::new()
        .stack_size(8 << 20)
        .spawn(move || {
            let c = match compile(&text) {
                Ok(c) => c,
                Err(e) => return format!("RESULT rejected {e}"),
            };
            let vm = pest_vm::Vm::new(c.opt);
            let r = if limit > 0 { run_vm_limited(&vm, &rule, &input, limit) } else { run_vm(&vm, &rule, &input) };
            match r {
                VmOut::Ok(_) => "RESULT ok".to_string(),
                VmOut::Err { custom: Some(m), .. } if m == "call limit reached" => "RESULT limit".to_string(),
                VmOut::Err { .. } => "RESULT err".to_string(),
                VmOut::Panic(m) => format!("RESULT panic {m}"),
            }
        })
        .unwrap();
    match h.join() {
        Ok(s) => {
            println!("{s}");
            0
        }
        Err(_) => 3,
    }
}

fn soundness_case(ctx: &mut Ctx, g: &Gram, specs: &[InputSpec]) -> Result<(), Fail> {
    let text = print_grammar(g);
    ctx.inflight(&case_json(&text, "", ""));
    ctx.class("soundness:generated");
    let c = match compile(&text) {
        Ok(c) => c,
        Err(e) if e.starts_with("PANIC") => {
            return Err(Fail::new("c06:front-end-panic", format!("grammar:\n{text}{e}"), case_json(&text, "", "")));
        }
        Err(_) => {
            ctx.class("soundness:rejected");
            return Ok(());
        }
    };
    ctx.class("soundness:accepted");
    let cyc = has_cycle(g);
    if cyc {
        ctx.class("soundness:accepted-with-cycle");
        ctx.nontrivial(&text);
        let t = text.clone();
        ctx.sample(|| json!({"direction": "soundness", "grammar": t}));
    }
    let cg = refsem::grammar_from_opt(&c.opt);
    let alpha = pick_alphabet(&cg, 4);
    let mut inputs = enumerate(&alpha, 3);
    for rule in &cg.order {
        for s in specs {
            inputs.push(realise(&cg, rule, s, &alpha));
        }
    }
    inputs.sort();
    inputs.dedup();
    for rule in &cg.order {
        for input in &inputs {
            ctx.eval();
            let (o, _) = refsem::run(&cg, rule, input);
            if let Outcome::Diverges(why) = o {
                // demonstrate on the real code before reporting
                let kind = if why.contains("via-implicit-skip") { "reentry-via-implicit-skip" } else if why.contains("re-entered") { "reentry" } else { "iteration" };
                return match vm_child_nontermination(&text, rule, input) {
                    Some(how) => Err(Fail::new(
                        format!("c06:accepted-grammar-diverges:{kind}"),
                        format!("grammar accepted by pest_meta:\n{text}parsing rule {rule} on {input:?} never terminates: model: {why}; real VM: {how}"),
                        case_json(&text, rule, input),
                    )),
                    None => {
                        ctx.notes.push(format!("INCONSISTENT model/VM on stack-free grammar: {} rule {rule} input {input:?}: model says {why}, VM terminated", text.replace('\n', " ; ")));
                        ctx.class("soundness:model-vm-inconsistent");
                        Ok(())
                    }
                };
            }
        }
    }
    Ok(())
}

/// A terminal that begins by matching at least one character: non-empty literal, range, or a
/// single-character built-in.
fn leading_terminal() -> impl Strategy<Value = GE> {
    (bare_leading_terminal(), 0u8..10, 1u32..=2, 0u32..=2).prop_map(|(t, form, m, d)| match form {
        // "begins by matching at least one character through a non-empty literal, a range or a
        // single-character built-in": also when that terminal is repeated at least once
        0 => GE::RepOnce(Box::new(t)),
        1 => GE::RepExact(Box::new(t), m),
        2 => GE::RepMin(Box::new(t), m),
        3 => GE::RepMinMax(Box::new(t), m, m + d),
        _ => t,
    })
}

fn bare_leading_terminal() -> impl Strategy<Value = GE> {
    prop_oneof![
        Just(GE::Str("a".into())),
        Just(GE::Str("ab".into())),
        Just(GE::Str("é".into())),
        Just(GE::Str(" ".into())),
        Just(GE::Insens("Ab".into())),
        Just(GE::Range('a', 'c')),
        Just(GE::Range('c', 'a')),
        Just(GE::Builtin("ANY")),
        Just(GE::Builtin("ASCII_DIGIT")),
        Just(GE::Builtin("ASCII_ALPHA")),
        Just(GE::Builtin("LETTER")),
        Just(GE::Builtin("ASCII_HEX_DIGIT")),
    ]
}

/// Rewrites a raw grammar so that the premise of the completeness statement holds by
/// construction: every repetition body, every non-final alternative, WHITESPACE/COMMENT and
/// every rule body start with a leading terminal.
fn make_well_formed(g: &mut Gram, terms: &[GE]) {
    let mut k = 0usize;
    let mut next = |k: &mut usize| {
        *k += 1;
        terms[*k % terms.len()].clone()
    };
    fn consuming(e: &GE) -> bool {
        match e {
            GE::Str(s) | GE::Insens(s) => !s.is_empty(),
            GE::Range(..) => true,
            GE::Builtin(n) => *n != "SOI" && *n != "EOI" && *n != "NEWLINE",
            GE::RepOnce(x) => consuming(x),
            GE::RepExact(x, n) | GE::RepMin(x, n) | GE::RepMinMax(x, n, _) => *n >= 1 && consuming(x),
            _ => false,
        }
    }
    fn starts_ok(e: &GE) -> bool {
        match e {
            GE::Seq(a, _) => consuming(a) || starts_ok(a),
            _ => false,
        }
    }
    fn prefix(e: &mut GE, t: GE) {
        let inner = std::mem::replace(e, GE::Str(String::new()));
        // `t ~ a ~ b` reads back left-nested, `t ~ (a ~ b)` right-nested: use both shapes
        *e = match inner {
            GE::Seq(a, b) if matches!(t, GE::Str(ref s) if s.len() % 2 == 1) => GE::Seq(Box::new(GE::Seq(Box::new(t), a)), b),
            other => GE::Seq(Box::new(t), Box::new(other)),
        };
    }
    fn walk(e: &mut GE, k: &mut usize, next: &mut dyn FnMut(&mut usize) -> GE, final_alt: bool) {
        match e {
            GE::Rep(x) | GE::RepOnce(x) | GE::RepMin(x, _) | GE::RepExact(x, _) | GE::RepMax(x, _) | GE::RepMinMax(x, _, _) => {
                walk(x, k, next, true);
                if !starts_ok(x) {
                    prefix(x, next(k));
                }
            }
            GE::Choice(a, b) => {
                walk(a, k, next, false);
                if !starts_ok(a) {
                    prefix(a, next(k));
                }
                walk(b, k, next, final_alt);
                // a nested choice on the right: its own alternatives are handled recursively; the
                // last one is final only if this choice is in final position
                if !final_alt && !matches!(**b, GE::Choice(..)) && !starts_ok(b) {
                    prefix(b, next(k));
                }
            }
            GE::Pos(x) | GE::Neg(x) | GE::Opt(x) | GE::Push(x) | GE::Tag(x, _) => walk(x, k, next, true),
            GE::Seq(a, b) => {
                walk(a, k, next, true);
                walk(b, k, next, true);
            }
            _ => {}
        }
    }
    for r in g.rules.iter_mut() {
        walk(&mut r.expr, &mut k, &mut next, true);
        if !starts_ok(&r.expr) {
            prefix(&mut r.expr, next(&mut k));
        }
    }
}

fn completeness_case(ctx: &mut Ctx, g: &Gram) -> Result<(), Fail> {
    let text = print_grammar(g);
    ctx.inflight(&json!({"config": config_name(), "direction": "completeness", "grammar": text, "rule": "", "input": ""}));
    ctx.eval();
    ctx.class("completeness:generated");
    if has_cycle(g) && has_repetition(g) {
        ctx.nontrivial(&text);
        ctx.class("completeness:cycle+repetition");
        let t = text.clone();
        ctx.sample(|| json!({"direction": "completeness", "grammar": t}));
    }
    let r = catch(|| pest_meta::parse_and_optimize(&text).map(|_| ()).map_err(|es| es.iter().map(|e| e.variant.message().to_string()).collect::<Vec<_>>().join("; ")));
    match r {
        Ok(Ok(())) => Ok(()),
        Ok(Err(msg)) => {
            let kind = if msg.contains("left-recursive") {
                "left-recursive"
            } else if msg.contains("repetition") || msg.contains("repeat infinitely") {
                "repetition"
            } else if msg.contains("cannot fail") {
                "choice"
            } else {
                "other"
            };
            Err(Fail::new(
                format!("c06:well-formed-grammar-rejected:{kind}"),
                format!("every repetition body, non-final alternative, WHITESPACE/COMMENT and rule body of this grammar starts with a consuming terminal, yet pest_meta rejects it ({msg}):\n{text}"),
                json!({"config": config_name(), "direction": "completeness", "grammar": text, "rule": "", "input": ""}),
            ))
        }
        Err(p) => Err(Fail::new("c06:front-end-panic", format!("grammar:\n{text}panic: {p}"), json!({"config": config_name(), "direction": "completeness", "grammar": text, "rule": "", "input": ""}))),
    }
}

fn raw_grammar_strategy(max_rules: usize, with_ws: bool, shadow: bool) -> BoxedStrategy<Gram> {
    // unrepaired, stack-free, recursion-heavy
    let cfg = GenCfg { extras: EXTRAS, stack_ops: false, max_rules, ws_prob: 0.4, allow_shadow: false, depth: 3 };
    let e = expr_strategy(&cfg);
    let ty = prop_oneof![3 => Just(Ty::Normal), 1 => Just(Ty::Silent), 1 => Just(Ty::Atomic), 1 => Just(Ty::Compound), 1 => Just(Ty::NonAtomic)];
    (
        proptest::collection::vec((ty.clone(), e.clone()), 1..=max_rules),
        opt_weighted(if with_ws { 0.4 } else { 0.0 }, (ty.clone(), e.clone())),
        opt_weighted(if with_ws { 0.25 } else { 0.0 }, (ty, e)),
        // a user rule named like a (non-keyword) built-in: the user's definition is the one that runs, so the
        // analyses must look at its body, not at the built-in's reputation
        opt_weighted(if shadow { 0.25 } else { 0.0 }, (0..SHADOW_NAMES.len(), any::<u8>())),
    )
        .prop_map(|(rules, ws, cm, shadow)| {
            let mut g = Gram { rules: vec![] };
            for (i, (ty, expr)) in rules.into_iter().enumerate() {
                g.rules.push(GRule { name: format!("r{i}"), ty, expr });
            }
            if let Some((k, which)) = shadow {
                let idx = (which as usize) % g.rules.len();
                g.rules[idx].name = SHADOW_NAMES[k].to_string();
            }
            if let Some((ty, expr)) = ws {
                g.rules.push(GRule { name: "WHITESPACE".into(), ty, expr });
            }
            if let Some((ty, expr)) = cm {
                g.rules.push(GRule { name: "COMMENT".into(), ty, expr });
            }
            let (hw, hc) = (g.has("WHITESPACE"), g.has("COMMENT"));
            fn fix_named(hw: bool, hc: bool, e: &mut GE) {
                match e {
                    GE::Named(n) => {
                        if (*n == "WHITESPACE" && !hw) || (*n == "COMMENT" && !hc) {
                            *e = GE::Ref(0);
                        }
                    }
                    GE::Pos(x) | GE::Neg(x) | GE::Opt(x) | GE::Rep(x) | GE::RepOnce(x) | GE::RepExact(x, _) | GE::RepMin(x, _)
                    | GE::RepMax(x, _) | GE::RepMinMax(x, _, _) | GE::Push(x) | GE::Tag(x, _) => fix_named(hw, hc, x),
                    GE::Seq(a, b) | GE::Choice(a, b) => {
                        fix_named(hw, hc, a);
                        fix_named(hw, hc, b);
                    }
                    _ => {}
                }
            }
            for r in g.rules.iter_mut() {
                fix_named(hw, hc, &mut r.expr);
            }
            g
        })
        .boxed()
}

pub fn run(ctx: &mut Ctx) {
    // soundness: raw grammars (most are rejected; the accepted ones are the domain)
    let n = ctx.share(ctx.tier.pick(400_000, 12_000_000));
    let strat = (raw_grammar_strategy(3, true, true), proptest::collection::vec(spec_strategy(), 3));
    ctx.run_prop(n, 1, strat, |ctx, (g, specs)| soundness_case(ctx, g, specs));
    // soundness, second stream: one or two tiny rules (densest source of accepted recursive grammars)
    let strat2 = (raw_grammar_strategy(2, false, true), proptest::collection::vec(spec_strategy(), 2));
    ctx.run_prop(n, 3, strat2, |ctx, (g, specs)| soundness_case(ctx, g, specs));
    // completeness
    let m = ctx.share(ctx.tier.pick(200_000, 4_000_000));
    let strat3 = (raw_grammar_strategy(4, true, false), proptest::collection::vec(leading_terminal(), 1..6)).prop_map(|(mut g, terms)| {
        make_well_formed(&mut g, &terms);
        if EXTRAS {
            // grammar-extras rejects tags on silent rules and built-ins for a reason of its own
            // ("will not appear in the output"): such tags are dropped by construction
            fix_tags(&mut g);
        }
        g
    });
    ctx.run_prop(m, 2, strat3, |ctx, g| completeness_case(ctx, g));
}

pub fn replay(case: &Value) -> Result<(), Fail> {
    let text = case["grammar"].as_str().expect("grammar");
    if case["direction"].as_str() == Some("completeness") {
        return match catch(|| pest_meta::parse_and_optimize(text).map(|_| ()).map_err(|es| es.iter().map(|e| e.variant.message().to_string()).collect::<Vec<_>>().join("; "))) {
            Ok(Ok(())) => Ok(()),
            Ok(Err(msg)) => {
                let kind = if msg.contains("left-recursive") { "left-recursive" } else if msg.contains("repetition") || msg.contains("repeat infinitely") { "repetition" } else if msg.contains("cannot fail") { "choice" } else { "other" };
                Err(Fail::new(format!("c06:well-formed-grammar-rejected:{kind}"), msg, case.clone()))
            }
            Err(p) => Err(Fail::new("c06:front-end-panic", p, case.clone())),
        };
    }
    let rule = case["rule"].as_str().expect("rule");
    let input = case["input"].as_str().expect("input");
    let c = match compile(text) {
        Ok(c) => c,
        Err(e) if e.starts_with("PANIC") => return Err(Fail::new("c06:front-end-panic", e, case.clone())),
        Err(_) => return Ok(()), // rejected grammars are outside the soundness statement
    };
    let cg = refsem::grammar_from_opt(&c.opt);
    let (o, _) = refsem::run(&cg, rule, input);
    if let Outcome::Diverges(why) = o {
        let kind = if why.contains("via-implicit-skip") { "reentry-via-implicit-skip" } else if why.contains("re-entered") { "reentry" } else { "iteration" };
        if let Some(how) = vm_child_nontermination(text, rule, input) {
            return Err(Fail::new(format!("c06:accepted-grammar-diverges:{kind}"), format!("accepted grammar never terminates on rule {rule} input {input:?}: {why}; real VM: {how}"), case.clone()));
        }
    }
    Ok(())
}

pub const DEF: CheckDef = CheckDef {
    id: "C06",
    rule: "Soundness: UNREPAIRED proptest grammars without stack built-ins (1-3 rules + optional WHITESPACE/COMMENT with arbitrary bodies, rule references weighted high so that recursion appears under every operator; in a quarter of them one rule is named like a built-in - ASCII_DIGIT, NEWLINE, LETTER) - for each grammar pest_meta ACCEPTS, every rule x (all strings of length <= 3 over up to 4 symbols of its alphabet + sampled derivations) is evaluated by the reference evaluator over the OPTIMIZED rules; the oracle is that it never proves divergence (re-entry of an active (rule, position, atomicity) or a repetition iteration consuming nothing - exact for stack-free grammars); a divergence verdict is then demonstrated on the real VM in a child process (stack overflow or 3M combinator calls) before it is reported. Completeness: raw grammars rewritten so that every repetition body, non-final alternative, WHITESPACE/COMMENT body and rule body starts with a non-empty literal, range or single-character built-in must be accepted by parse_and_optimize. Non-trivial = accepted grammar with a reference cycle (soundness) / grammar with a cycle and a repetition (completeness); distinct = distinct grammar text.",
    assumptions: &[
        "termination is decided by exact recurrence detection in the model (no timeouts); the child-process demonstration uses a 3,000,000-call limit only to confirm an endless iteration the model already proved",
        "both feature configurations; under grammar-extras tags that the validator rejects for a reason of its own (on silent rules / built-ins) are dropped from the completeness stream by construction",
    ],
    floor: |t| t.pick(2_000, 20_000),
    shards: |_| 16,
    run,
    replay,
    journal: true,
    pre: None,
};
