//! C16 — Unicode property rules are consistent for every code point.

use crate::fw::*;
use crate::vmrun::compile;
use pest_vm::Vm;
use serde_json::{json, Value};

include!(concat!(env!("OUT_DIR"), "/unicode_fns.rs"));

/// (two-letter category, pest's rule name, grouped categories it belongs to) — written from
/// UAX #44 Table 12, not from the crate.
const CATS: [(&str, &str, &[&str]); 30] = [
    ("Lu", "UPPERCASE_LETTER", &["LETTER", "CASED_LETTER"]),
    ("Ll", "LOWERCASE_LETTER", &["LETTER", "CASED_LETTER"]),
    ("Lt", "TITLECASE_LETTER", &["LETTER", "CASED_LETTER"]),
    ("Lm", "MODIFIER_LETTER", &["LETTER"]),
    ("Lo", "OTHER_LETTER", &["LETTER"]),
    ("Mn", "NONSPACING_MARK", &["MARK"]),
    ("Mc", "SPACING_MARK", &["MARK"]),
    ("Me", "ENCLOSING_MARK", &["MARK"]),
    ("Nd", "DECIMAL_NUMBER", &["NUMBER"]),
    ("Nl", "LETTER_NUMBER", &["NUMBER"]),
    ("No", "OTHER_NUMBER", &["NUMBER"]),
    ("Pc", "CONNECTOR_PUNCTUATION", &["PUNCTUATION"]),
    ("Pd", "DASH_PUNCTUATION", &["PUNCTUATION"]),
    ("Ps", "OPEN_PUNCTUATION", &["PUNCTUATION"]),
    ("Pe", "CLOSE_PUNCTUATION", &["PUNCTUATION"]),
    ("Pi", "INITIAL_PUNCTUATION", &["PUNCTUATION"]),
    ("Pf", "FINAL_PUNCTUATION", &["PUNCTUATION"]),
    ("Po", "OTHER_PUNCTUATION", &["PUNCTUATION"]),
    ("Sm", "MATH_SYMBOL", &["SYMBOL"]),
    ("Sc", "CURRENCY_SYMBOL", &["SYMBOL"]),
    ("Sk", "MODIFIER_SYMBOL", &["SYMBOL"]),
    ("So", "OTHER_SYMBOL", &["SYMBOL"]),
    ("Zs", "SPACE_SEPARATOR", &["SEPARATOR"]),
    ("Zl", "LINE_SEPARATOR", &["SEPARATOR"]),
    ("Zp", "PARAGRAPH_SEPARATOR", &["SEPARATOR"]),
    ("Cc", "CONTROL", &["OTHER"]),
    ("Cf", "FORMAT", &["OTHER"]),
    ("Cs", "SURROGATE", &["OTHER"]),
    ("Co", "PRIVATE_USE", &["OTHER"]),
    ("Cn", "UNASSIGNED", &["OTHER"]),
];
const GROUPS: [&str; 8] = ["LETTER", "CASED_LETTER", "MARK", "NUMBER", "PUNCTUATION", "SYMBOL", "SEPARATOR", "OTHER"];

fn f_of(name: &str) -> Option<fn(char) -> bool> {
    UNICODE_FNS.iter().find(|(_, n, _)| *n == name).map(|(_, _, f)| *f)
}

fn fail(sig: &str, msg: String, case: Value) -> Fail {
    Fail::new(format!("c16:{sig}"), msg, case)
}

/// All checks for one scalar. `vm_names` limits the VM path to some names (None = all).
fn check_scalar(ctx: &mut Ctx, c: char, by_name: &[(String, Box<dyn Fn(char) -> bool>)], vms: Option<&[(String, Vm)]>) -> Result<(), Fail> {
    let cp = c as u32;
    // partition
    let mut matching = vec![];
    for (short, name, _) in CATS.iter() {
        let f = f_of(name).ok_or_else(|| fail("missing-category-rule", format!("no rule {name} ({short})"), json!({"name": name})))?;
        if f(c) {
            matching.push(*name);
        }
    }
    if matching.len() != 1 {
        return Err(fail("category-partition", format!("U+{cp:04X}: general-category rules matching: {matching:?} (exactly one expected)"), json!({"scalar": cp, "check": "partition"})));
    }
    let cat = matching[0];
    let groups_of: &[&str] = CATS.iter().find(|(_, n, _)| *n == cat).unwrap().2;
    for g in GROUPS {
        let f = f_of(g).ok_or_else(|| fail("missing-group-rule", format!("no rule {g}"), json!({"name": g})))?;
        let want = groups_of.contains(&g);
        if f(c) != want {
            return Err(fail("group-union", format!("U+{cp:04X} has category {cat}; {g} = {} but the union of its members gives {want}", f(c)), json!({"scalar": cp, "check": "group", "name": g})));
        }
    }
    // scripts pairwise disjoint
    let mut scripts = vec![];
    for (list, name, f) in UNICODE_FNS.iter() {
        if *list == "SCRIPT_PROPERTY_NAMES" && f(c) {
            scripts.push(*name);
        }
    }
    if scripts.len() > 1 {
        return Err(fail("script-disjoint", format!("U+{cp:04X} matches several script rules: {scripts:?}"), json!({"scalar": cp, "check": "scripts"})));
    }
    // agreement: function vs by_name
    for (i, (_, name, f)) in UNICODE_FNS.iter().enumerate() {
        let a = f(c);
        let b = (by_name[i].1)(c);
        if a != b {
            return Err(fail("fn-vs-by_name", format!("U+{cp:04X}: pest::unicode::{name} = {a} but by_name(\"{name}\") = {b}"), json!({"scalar": cp, "check": "agree", "name": name})));
        }
    }
    // agreement: VM built-in rule
    if let Some(vms) = vms {
        let s = c.to_string();
        for (i, (name, vm)) in vms.iter().enumerate() {
            let idx = UNICODE_FNS.iter().position(|(_, n, _)| n == name).unwrap();
            let want = (UNICODE_FNS[idx].2)(c);
            let got = match vm.parse("r", &s) {
                Ok(mut p) => p.next().map(|p| p.as_span().end() == s.len()).unwrap_or(false),
                Err(_) => false,
            };
            if got != want {
                return Err(fail("fn-vs-vm", format!("U+{cp:04X}: pest::unicode::{name} = {want} but a VM rule r = {{ {name} }} matches = {got}"), json!({"scalar": cp, "check": "vm", "name": name})));
            }
            let _ = i;
        }
    }
    ctx.eval();
    Ok(())
}

pub fn run(ctx: &mut Ctx) {
    // every advertised name resolves (by_name), has a function (build.rs table), and is accepted
    let advertised: Vec<&'static str> = pest::unicode::unicode_property_names().collect();
    let mut by_name: Vec<(String, Box<dyn Fn(char) -> bool>)> = vec![];
    for (_, name, _) in UNICODE_FNS.iter() {
        match pest::unicode::by_name(name) {
            Some(f) => by_name.push((name.to_string(), f)),
            None => {
                ctx.report(fail("by_name-missing", format!("by_name(\"{name}\") is None"), json!({"name": name, "check": "resolve"})));
                return;
            }
        }
    }
    if ctx.shard == 0 {
        let table: std::collections::BTreeSet<&str> = UNICODE_FNS.iter().map(|(_, n, _)| *n).collect();
        let adv: std::collections::BTreeSet<&str> = advertised.iter().copied().collect();
        if table != adv {
            let d1: Vec<_> = adv.difference(&table).collect();
            let d2: Vec<_> = table.difference(&adv).collect();
            ctx.report(fail("name-lists-differ", format!("unicode_property_names() and the source lists differ: only advertised {d1:?}, only in source {d2:?}"), json!({"check": "names"})));
        }
        for name in &advertised {
            let text = format!("r = {{ {name} }}\n");
            if let Err(e) = compile(&text) {
                ctx.report(fail("validator-rejects-name", format!("advertised property {name} is rejected: {e}"), json!({"name": name, "check": "validator"})));
            }
        }
        ctx.class_n("names-advertised", advertised.len() as u64);
    }
    // VMs, one per name
    let mut vms: Vec<(String, Vm)> = vec![];
    for (_, name, _) in UNICODE_FNS.iter() {
        if let Ok(c) = compile(&format!("r = {{ {name} }}\n")) {
            vms.push((name.to_string(), Vm::new(c.opt)));
        }
    }
    let lo = (0x110000u32 / ctx.nshards as u32) * ctx.shard as u32;
    let hi = if ctx.shard + 1 == ctx.nshards { 0x110000 } else { (0x110000u32 / ctx.nshards as u32) * (ctx.shard as u32 + 1) };
    let thorough = ctx.tier == Tier::Thorough;
    let mut prev: Option<Vec<bool>> = None;
    let mut stop = false;
    let mut cp = lo;
    let mut pending_vm: Option<char> = None; // the scalar before a boundary
    while cp < hi && !stop {
        if let Some(c) = char::from_u32(cp) {
            let bits: Vec<bool> = UNICODE_FNS.iter().map(|(_, _, f)| f(c)).collect();
            let boundary = prev.as_ref().map(|p| *p != bits).unwrap_or(true);
            if boundary {
                ctx.nontrivial(&cp);
                ctx.class("boundary-scalars");
                if ctx.classes["boundary-scalars"] % 4096 == 1 {
                    ctx.sample(|| json!({"scalar": format!("U+{cp:04X}"), "note": "a property changes value here relative to the previous scalar"}));
                }
            }
            let use_vm = thorough || boundary || cp % 61 == 0;
            if use_vm {
                ctx.class("vm-path-scalars");
                // also the scalar just before a boundary
                if boundary && !thorough {
                    if let Some(pc) = pending_vm {
                        if let Err(f) = check_scalar(ctx, pc, &by_name, Some(&vms)) {
                            stop |= ctx.report(f);
                        }
                    }
                }
            }
            if let Err(f) = check_scalar(ctx, c, &by_name, if use_vm { Some(&vms) } else { None }) {
                stop |= ctx.report(f);
            }
            pending_vm = Some(c);
            prev = Some(bits);
        }
        cp += 1;
    }
    ctx.exhaustive = !stop;
}

pub fn replay(case: &Value) -> Result<(), Fail> {
    let mut ctx = Ctx::new("C16", Tier::Quick, 0, 0, 1);
    let mut by_name: Vec<(String, Box<dyn Fn(char) -> bool>)> = vec![];
    for (_, name, _) in UNICODE_FNS.iter() {
        match pest::unicode::by_name(name) {
            Some(f) => by_name.push((name.to_string(), f)),
            None => return Err(fail("by_name-missing", format!("by_name(\"{name}\") is None"), case.clone())),
        }
    }
    if let Some(name) = case["name"].as_str() {
        if case["check"].as_str() == Some("validator") {
            if let Err(e) = compile(&format!("r = {{ {name} }}\n")) {
                return Err(fail("validator-rejects-name", e, case.clone()));
            }
        }
    }
    if let Some(cp) = case["scalar"].as_u64() {
        let mut vms: Vec<(String, Vm)> = vec![];
        for (_, name, _) in UNICODE_FNS.iter() {
            if let Ok(c) = compile(&format!("r = {{ {name} }}\n")) {
                vms.push((name.to_string(), Vm::new(c.opt)));
            }
        }
        if let Some(c) = char::from_u32(cp as u32) {
            return check_scalar(&mut ctx, c, &by_name, Some(&vms));
        }
    }
    Ok(())
}

pub const DEF: CheckDef = CheckDef {
    id: "C16",
    rule: "EVERY Unicode scalar value (all 1,112,064) x every name in the source lists (function pointers emitted at harness build time from pest/src/unicode/mod.rs): exactly one of the 30 general-category rules matches; LETTER, CASED_LETTER, MARK, NUMBER, PUNCTUATION, SYMBOL, SEPARATOR, OTHER equal the union of their members per UAX #44 (table written in the harness); script rules pairwise disjoint; pest::unicode::NAME(c) == by_name(NAME)(c) for every name; a VM over `r = { NAME }` gives the same bit (quick: on every scalar where some property changes value, the scalar before it, and every 61st scalar; thorough: every scalar); every advertised name resolves, has a function and is accepted by parse_and_optimize. evaluations = scalars checked; non-trivial = scalars at which at least one property changes value relative to the previous scalar (range boundaries), counted.",
    assumptions: &[
        "the generated-code access path (derive) is exercised by C02's batch engine on Unicode built-ins, not here",
        "UAX #44 group membership table is hand-written in harness/pv/src/c16.rs",
    ],
    floor: |t| t.pick(1_000, 1_000),
    shards: |_| 16,
    run,
    replay,
    journal: false,
    pre: None,
};
