//! Input generation: a derivation sampler driven by proptest-generated choice values (so that
//! shrinking and replay work), random edits, and exhaustive enumeration over an alphabet.

use crate::refsem::{CGrammar, Core};
use pest_meta::ast::RuleType;
use proptest::prelude::*;

#[derive(Clone, Debug, PartialEq, Eq, Hash)]
pub struct InputSpec {
    pub kind: u8, // 0,1 = derivation; 2 = derivation + edits; 3 = random string
    pub choices: Vec<u16>,
}

pub fn spec_strategy() -> impl Strategy<Value = InputSpec> {
    (0u8..4, proptest::collection::vec(any::<u16>(), 4..40)).prop_map(|(kind, choices)| InputSpec { kind, choices })
}

pub struct Chooser<'a> {
    data: &'a [u16],
    i: usize,
}
impl<'a> Chooser<'a> {
    pub fn new(data: &'a [u16]) -> Self {
        Chooser { data, i: 0 }
    }
    /// monotone map of the next choice value onto 0..n
    pub fn pick(&mut self, n: usize) -> usize {
        if n <= 1 || self.data.is_empty() {
            return 0;
        }
        let v = self.data[self.i % self.data.len()] as usize;
        self.i += 1;
        (v * n) >> 16
    }
}

pub const BASE_ALPHABET: [char; 14] = ['a', 'b', 'c', 'A', 'B', '1', '0', 'é', '€', '😀', ' ', '\n', '%', 'z'];

pub fn alphabet(g: &CGrammar) -> Vec<char> {
    let mut v = crate::refsem::alphabet_of(g);
    v.push('z'); // one character no terminal mentions
    v.sort();
    v.dedup();
    v
}

struct Sampler<'a, 'c> {
    g: &'a CGrammar,
    ch: Chooser<'c>,
    out: String,
    stack: Vec<String>,
    budget: i32,
    alpha: Vec<char>,
}

impl Sampler<'_, '_> {
    fn skip_text(&mut self, atomic: bool) {
        if atomic {
            return;
        }
        let ws = self.g.rules.contains_key("WHITESPACE");
        let cm = self.g.rules.contains_key("COMMENT");
        if !ws && !cm {
            return;
        }
        let n = [0, 0, 1, 1, 2][self.ch.pick(5)];
        for _ in 0..n {
            let which = if ws && cm { self.ch.pick(3) == 2 } else { cm };
            let name = if which { "COMMENT" } else { "WHITESPACE" };
            let body = self.g.rules[name].body.clone();
            self.walk(&body, true, 6);
        }
    }

    fn walk(&mut self, c: &Core, atomic: bool, depth: u32) {
        self.budget -= 1;
        if self.budget < 0 || self.out.len() > 64 {
            return;
        }
        match c {
            Core::Str(s) => self.out.push_str(s),
            Core::Insens(s) => {
                for ch in s.chars() {
                    let flip = self.ch.pick(2) == 1;
                    if flip && ch.is_ascii_alphabetic() {
                        if ch.is_ascii_lowercase() {
                            self.out.push(ch.to_ascii_uppercase())
                        } else {
                            self.out.push(ch.to_ascii_lowercase())
                        }
                    } else {
                        self.out.push(ch);
                    }
                }
            }
            Core::Range(a, b) => {
                let cands: Vec<char> = self.alpha.iter().copied().filter(|x| a <= x && x <= b).collect();
                if cands.is_empty() {
                    self.out.push(*a);
                } else {
                    let i = self.ch.pick(cands.len());
                    self.out.push(cands[i]);
                }
            }
            Core::Call(n) => {
                if let Some(r) = self.g.rules.get(n.as_str()) {
                    if depth > 7 {
                        return;
                    }
                    let is_ws = n == "WHITESPACE" || n == "COMMENT";
                    let at = match r.ty {
                        RuleType::Atomic | RuleType::CompoundAtomic => true,
                        RuleType::NonAtomic => is_ws,
                        _ => atomic || is_ws,
                    };
                    let body = r.body.clone();
                    self.walk(&body, at, depth + 1);
                    return;
                }
                match n.as_str() {
                    "ANY" => {
                        let i = self.ch.pick(self.alpha.len());
                        self.out.push(self.alpha[i]);
                    }
                    "SOI" | "EOI" => {}
                    "NEWLINE" => self.out.push_str(["\n", "\r\n", "\r"][self.ch.pick(3)]),
                    "ASCII_DIGIT" | "ASCII_NONZERO_DIGIT" | "ASCII_BIN_DIGIT" | "ASCII_OCT_DIGIT" => self.out.push('1'),
                    "ASCII_HEX_DIGIT" | "ASCII_ALPHANUMERIC" => self.out.push(['1', 'a', 'B'][self.ch.pick(3)]),
                    "ASCII_ALPHA" | "ASCII_ALPHA_LOWER" => self.out.push(['a', 'b', 'c'][self.ch.pick(3)]),
                    "ASCII_ALPHA_UPPER" => self.out.push('A'),
                    "ASCII" => self.out.push(['a', ' ', '1'][self.ch.pick(3)]),
                    "LETTER" => self.out.push(['a', 'é', 'B'][self.ch.pick(3)]),
                    "PEEK" => {
                        if let Some(s) = self.stack.last().cloned() {
                            self.out.push_str(&s)
                        }
                    }
                    "POP" => {
                        if let Some(s) = self.stack.pop() {
                            self.out.push_str(&s)
                        }
                    }
                    "DROP" => {
                        self.stack.pop();
                    }
                    "PEEK_ALL" => {
                        for s in self.stack.clone().iter().rev() {
                            self.out.push_str(s)
                        }
                    }
                    "POP_ALL" => {
                        for s in self.stack.clone().iter().rev() {
                            self.out.push_str(s)
                        }
                        self.stack.clear();
                    }
                    _ => self.out.push('a'),
                }
            }
            Core::PeekSlice(a, b) => {
                let len = self.stack.len() as i64;
                let norm = |i: i64| if i > len { None } else if i >= 0 { Some(i) } else if len + i >= 0 { Some(len + i) } else { None };
                if let (Some(s), Some(e)) = (norm(*a as i64), b.map(|x| norm(x as i64)).unwrap_or(Some(len))) {
                    if s < e {
                        for it in self.stack.clone()[s as usize..e as usize].iter() {
                            self.out.push_str(it);
                        }
                    }
                }
            }
            Core::Pos(_) | Core::Neg(_) => {}
            Core::Seq(a, b) => {
                self.walk(a, atomic, depth);
                self.skip_text(atomic);
                self.walk(b, atomic, depth);
            }
            Core::Choice(a, b) => {
                if self.ch.pick(2) == 0 {
                    self.walk(a, atomic, depth)
                } else {
                    self.walk(b, atomic, depth)
                }
            }
            Core::Opt(x) => {
                if self.ch.pick(3) != 0 {
                    self.walk(x, atomic, depth)
                }
            }
            Core::Rep(x) | Core::RepOnce(x) => {
                let min = if matches!(c, Core::RepOnce(_)) { 1 } else { 0 };
                let n = min + self.ch.pick(4 - min);
                for i in 0..n {
                    if i > 0 {
                        self.skip_text(atomic);
                    }
                    self.walk(x, atomic, depth);
                }
            }
            Core::Push(x) => {
                let start = self.out.len();
                self.walk(x, atomic, depth);
                let s = self.out[start..].to_string();
                self.stack.push(s);
            }
            Core::PushLit(s) => self.stack.push(s.clone()),
            Core::Tag(x, _) => self.walk(x, atomic, depth),
            Core::SkipUntil(v) => {
                let n = self.ch.pick(3);
                for _ in 0..n {
                    self.out.push('z');
                }
                let _ = v;
            }
        }
    }
}

fn truncate_chars(s: &str, n: usize) -> String {
    s.chars().take(n).collect()
}

/// Realise an input for (grammar, start rule, spec).
pub fn realise(g: &CGrammar, rule: &str, spec: &InputSpec, alpha: &[char]) -> String {
    let mut ch = Chooser::new(&spec.choices);
    if spec.kind == 3 {
        let n = ch.pick(9);
        let mut s = String::new();
        for _ in 0..n {
            s.push(alpha[ch.pick(alpha.len())]);
        }
        return s;
    }
    let mut sm = Sampler { g, ch, out: String::new(), stack: vec![], budget: 200, alpha: alpha.to_vec() };
    sm.walk(&Core::Call(rule.to_string()), false, 0);
    let mut s = truncate_chars(&sm.out, 20);
    if spec.kind == 2 {
        let mut ch = sm.ch;
        let edits = 1 + ch.pick(2);
        for _ in 0..edits {
            let chars: Vec<char> = s.chars().collect();
            let at = ch.pick(chars.len() + 1);
            let mut v = chars.clone();
            match ch.pick(4) {
                0 if !v.is_empty() && at < v.len() => {
                    v.remove(at);
                }
                1 => v.insert(at.min(v.len()), alpha[ch.pick(alpha.len())]),
                2 if at < v.len() => v[at] = alpha[ch.pick(alpha.len())],
                _ => v.truncate(at),
            }
            s = v.into_iter().collect();
        }
    }
    s
}

/// All strings over `alpha` of length <= k (in chars), shortest first.
pub fn enumerate(alpha: &[char], k: usize) -> Vec<String> {
    let mut out = vec![String::new()];
    let mut frontier = vec![String::new()];
    for _ in 0..k {
        let mut next = vec![];
        for s in &frontier {
            for c in alpha {
                let mut t = s.clone();
                t.push(*c);
                next.push(t);
            }
        }
        out.extend(next.iter().cloned());
        frontier = next;
    }
    out
}
