//! C13 — operator-precedence parsers build the precedence-correct tree. Oracle: an independently
//! written two-stack shunting-yard using the binding powers of the statement.

use crate::fw::*;
use pest::iterators::{Pair, PairsBuilder};
use pest::pratt_parser::{Assoc, ConstPrattParser, Op, PrattParser};
use proptest::prelude::*;
use serde_json::{json, Value};

#[derive(Clone, Copy, Debug, PartialEq, Eq, Hash)]
pub enum Kind {
    Prefix,
    Postfix,
    InfixL,
    InfixR,
}

/// table: levels (lowest precedence first), each a list of (rule id, kind)
#[derive(Clone, Debug, PartialEq, Eq, Hash)]
pub struct Table {
    pub levels: Vec<Vec<(u8, Kind)>>,
}

#[derive(Clone, Debug, PartialEq, Eq, Hash)]
pub struct Case {
    pub table: Table,
    /// token sequence: rule ids; 0 = operand
    pub seq: Vec<u8>,
}

fn kind_name(k: Kind) -> &'static str {
    match k {
        Kind::Prefix => "prefix",
        Kind::Postfix => "postfix",
        Kind::InfixL => "infix-left",
        Kind::InfixR => "infix-right",
    }
}

fn case_json(c: &Case) -> Value {
    json!({
        "levels": c.table.levels.iter().map(|l| l.iter().map(|(r, k)| json!([r, kind_name(*k)])).collect::<Vec<_>>()).collect::<Vec<_>>(),
        "seq": c.seq,
    })
}

fn case_from_json(v: &Value) -> Case {
    let levels = v["levels"]
        .as_array()
        .unwrap()
        .iter()
        .map(|l| {
            l.as_array()
                .unwrap()
                .iter()
                .map(|e| {
                    let k = match e[1].as_str().unwrap() {
                        "prefix" => Kind::Prefix,
                        "postfix" => Kind::Postfix,
                        "infix-left" => Kind::InfixL,
                        _ => Kind::InfixR,
                    };
                    (e[0].as_u64().unwrap() as u8, k)
                })
                .collect()
        })
        .collect();
    Case { table: Table { levels }, seq: v["seq"].as_array().unwrap().iter().map(|x| x.as_u64().unwrap() as u8).collect() }
}

// ---------------- oracle: shunting-yard with the binding powers of the statement ----------------
// level index i (0-based) has power p = 2*(i+1); "just below p" = p-1.
fn oracle(c: &Case) -> String {
    let look = |r: u8| -> Option<(Kind, u32)> {
        for (i, l) in c.table.levels.iter().enumerate() {
            for (rr, k) in l {
                if *rr == r {
                    return Some((*k, 2 * (i as u32 + 1)));
                }
            }
        }
        None
    };
    struct OpEntry {
        rule: u8,
        pos: usize,
        right: u32,
        prefix: bool,
    }
    let mut out: Vec<String> = vec![];
    let mut ops: Vec<OpEntry> = vec![];
    fn reduce(out: &mut Vec<String>, op: OpEntry) {
        if op.prefix {
            let a = out.pop().unwrap();
            out.push(format!("(pre{}@{} {})", op.rule, op.pos, a));
        } else {
            let b = out.pop().unwrap();
            let a = out.pop().unwrap();
            out.push(format!("({} in{}@{} {})", a, op.rule, op.pos, b));
        }
    }
    for (pos, r) in c.seq.iter().enumerate() {
        match look(*r) {
            None => out.push(format!("{pos}")),
            Some((Kind::Prefix, p)) => ops.push(OpEntry { rule: *r, pos, right: p - 1, prefix: true }),
            Some((k, p)) => {
                // an operator with left power p takes what is on its left only after every pending
                // operator whose right power is >= p has been applied
                while let Some(top) = ops.last() {
                    if top.right >= p {
                        let t = ops.pop().unwrap();
                        reduce(&mut out, t);
                    } else {
                        break;
                    }
                }
                match k {
                    Kind::Postfix => {
                        let a = out.pop().unwrap();
                        out.push(format!("({} post{}@{})", a, r, pos));
                    }
                    Kind::InfixL => ops.push(OpEntry { rule: *r, pos, right: p, prefix: false }),
                    Kind::InfixR => ops.push(OpEntry { rule: *r, pos, right: p - 1, prefix: false }),
                    Kind::Prefix => unreachable!(),
                }
            }
        }
    }
    while let Some(t) = ops.pop() {
        reduce(&mut out, t);
    }
    assert_eq!(out.len(), 1);
    out.pop().unwrap()
}

fn pos_of(p: &Pair<'_, u8>) -> usize {
    p.as_span().start()
}

fn run_pratt(c: &Case) -> Result<String, String> {
    let input: String = "x".repeat(c.seq.len());
    let mut b = PairsBuilder::<u8>::new(&input);
    for (i, r) in c.seq.iter().enumerate() {
        b = b.rule(*r, i, i + 1);
    }
    let pairs = b.build();
    let mut pratt = PrattParser::<u8>::new();
    for l in &c.table.levels {
        let mut it = l.iter();
        let mk = |(r, k): &(u8, Kind)| match k {
            Kind::Prefix => Op::prefix(*r),
            Kind::Postfix => Op::postfix(*r),
            Kind::InfixL => Op::infix(*r, Assoc::Left),
            Kind::InfixR => Op::infix(*r, Assoc::Right),
        };
        let mut op = mk(it.next().unwrap());
        for x in it {
            op = op | mk(x);
        }
        pratt = pratt.op(op);
    }
    catch(|| {
        pratt
            .map_primary(|p| format!("{}", pos_of(&p)))
            .map_prefix(|op, rhs| format!("(pre{}@{} {})", op.as_rule(), pos_of(&op), rhs))
            .map_postfix(|lhs, op| format!("({} post{}@{})", lhs, op.as_rule(), pos_of(&op)))
            .map_infix(|lhs, op, rhs| format!("({} in{}@{} {})", lhs, op.as_rule(), pos_of(&op), rhs))
            .parse(pairs)
    })
}

macro_rules! const_dispatch {
    ($ops:expr, $pairs:expr, $($n:literal),*) => {
        match $ops.len() {
            $( $n => {
                let arr: [(Op<u8>, bool); $n] = match $ops.try_into() { Ok(a) => a, Err(_) => unreachable!() };
                let p: ConstPrattParser<u8, $n> = ConstPrattParser::new_const(arr);
                let r = p
                    .map_primary(|p| format!("{}", pos_of(&p)))
                    .map_prefix(|op, rhs| format!("(pre{}@{} {})", op.as_rule(), pos_of(&op), rhs))
                    .map_postfix(|lhs, op| format!("({} post{}@{})", lhs, op.as_rule(), pos_of(&op)))
                    .map_infix(|lhs, op, rhs| format!("({} in{}@{} {})", lhs, op.as_rule(), pos_of(&op), rhs))
                    .parse($pairs);
                r
            } )*
            _ => unreachable!("table too large"),
        }
    };
}

fn run_const_pratt(c: &Case) -> Result<String, String> {
    let input: String = "x".repeat(c.seq.len());
    let mut b = PairsBuilder::<u8>::new(&input);
    for (i, r) in c.seq.iter().enumerate() {
        b = b.rule(*r, i, i + 1);
    }
    let pairs = b.build();
    let mut ops: Vec<(Op<u8>, bool)> = vec![];
    for l in &c.table.levels {
        for (j, (r, k)) in l.iter().enumerate() {
            let op = match k {
                Kind::Prefix => Op::prefix(*r),
                Kind::Postfix => Op::postfix(*r),
                Kind::InfixL => Op::infix(*r, Assoc::Left),
                Kind::InfixR => Op::infix(*r, Assoc::Right),
            };
            ops.push((op, j == 0));
        }
    }
    catch(move || const_dispatch!(ops, pairs, 1, 2, 3, 4, 5, 6, 7, 8, 9, 10, 11, 12, 13, 14, 15, 16, 17, 18, 19))
}

#[allow(deprecated)]
fn run_prec_climber(c: &Case) -> Result<String, String> {
    use pest::prec_climber::{Assoc as A, Operator, PrecClimber};
    let input: String = "x".repeat(c.seq.len());
    let mut b = PairsBuilder::<u8>::new(&input);
    for (i, r) in c.seq.iter().enumerate() {
        b = b.rule(*r, i, i + 1);
    }
    let pairs = b.build();
    let mut ops = vec![];
    for l in &c.table.levels {
        let mk = |(r, k): &(u8, Kind)| Operator::new(*r, if *k == Kind::InfixL { A::Left } else { A::Right });
        let mut it = l.iter();
        let mut op = mk(it.next().unwrap());
        for x in it {
            op = op | mk(x);
        }
        ops.push(op);
    }
    let climber = PrecClimber::new(ops);
    catch(|| climber.climb(pairs, |p| format!("{}", pos_of(&p)), |lhs, op, rhs| format!("({} in{}@{} {})", lhs, op.as_rule(), pos_of(&op), rhs)))
}

/// Independent validity predicate: every operator token used exactly once, operands in order.
fn valid_output(c: &Case, s: &str) -> bool {
    // leaves are bare numbers; operator tokens carry @pos
    let mut operands = vec![];
    let mut op_positions = vec![];
    for tok in s.split(|ch: char| ch == ' ' || ch == '(' || ch == ')').filter(|t| !t.is_empty()) {
        if let Some((_, p)) = tok.split_once('@') {
            op_positions.push(p.parse::<usize>().unwrap_or(usize::MAX));
        } else if let Ok(n) = tok.parse::<usize>() {
            operands.push(n);
        }
    }
    let want_operands: Vec<usize> = c.seq.iter().enumerate().filter(|(_, r)| **r == 0).map(|(i, _)| i).collect();
    let mut want_ops: Vec<usize> = c.seq.iter().enumerate().filter(|(_, r)| **r != 0).map(|(i, _)| i).collect();
    op_positions.sort();
    want_ops.sort();
    operands == want_operands && op_positions == want_ops
}

fn infix_only_single_assoc(t: &Table) -> bool {
    t.levels.iter().all(|l| {
        l.iter().all(|(_, k)| matches!(k, Kind::InfixL | Kind::InfixR)) && (l.iter().all(|(_, k)| *k == Kind::InfixL) || l.iter().all(|(_, k)| *k == Kind::InfixR))
    })
}

pub fn check(ctx: &mut Ctx, c: &Case) -> Result<(), Fail> {
    ctx.eval();
    let want = oracle(c);
    let fail = |sig: &str, msg: String| Fail::new(format!("c13:{sig}"), format!("table {:?} sequence {:?}: {msg}", c.table.levels, c.seq), case_json(c));
    let got = run_pratt(c).map_err(|p| fail("pratt-panic", format!("PrattParser panicked: {p}")))?;
    if !valid_output(c, &got) {
        return Err(fail("pratt-invalid-tree", format!("PrattParser tree {got} does not use every operator once / keep operand order")));
    }
    if got != want {
        return Err(fail("pratt-grouping", format!("PrattParser gives {got}, operator-precedence grouping is {want}")));
    }
    let gotc = run_const_pratt(c).map_err(|p| fail("const-pratt-panic", format!("ConstPrattParser panicked: {p}")))?;
    if gotc != want {
        return Err(fail("const-pratt-grouping", format!("ConstPrattParser gives {gotc}, expected {want}")));
    }
    let climber = infix_only_single_assoc(&c.table);
    if climber {
        ctx.class("prec-climber-applicable");
        let g = run_prec_climber(c).map_err(|p| fail("prec-climber-panic", format!("PrecClimber panicked: {p}")))?;
        if g != want {
            return Err(fail("prec-climber-grouping", format!("PrecClimber gives {g}, expected {want}")));
        }
    }
    // non-triviality
    let level_of = |r: u8| c.table.levels.iter().position(|l| l.iter().any(|(x, _)| *x == r));
    let kind_of = |r: u8| c.table.levels.iter().flatten().find(|(x, _)| *x == r).map(|(_, k)| *k);
    let used: std::collections::BTreeSet<usize> = c.seq.iter().filter_map(|r| level_of(*r)).collect();
    let mut prefix_lower_than_later_infix = false;
    for (i, r) in c.seq.iter().enumerate() {
        if kind_of(*r) == Some(Kind::Prefix) {
            let lp = level_of(*r).unwrap();
            if c.seq[i + 1..].iter().any(|q| matches!(kind_of(*q), Some(Kind::InfixL | Kind::InfixR)) && level_of(*q).unwrap() > lp) {
                prefix_lower_than_later_infix = true;
            }
        }
    }
    let both_assoc = c.seq.iter().any(|r| kind_of(*r) == Some(Kind::InfixL)) && c.seq.iter().any(|r| kind_of(*r) == Some(Kind::InfixR));
    if used.len() >= 3 && (prefix_lower_than_later_infix || both_assoc) {
        ctx.nontrivial(c);
        ctx.sample(|| {
            let mut v = case_json(c);
            v["tree"] = json!(want);
            v
        });
    }
    Ok(())
}

/// A table in which one rule is registered twice (another level, kind or associativity): what such a table
/// *means* is not stated, but "ConstPrattParser gives the same tree for the same table" still is.
pub fn check_duplicate(ctx: &mut Ctx, c: &Case) -> Result<(), Fail> {
    ctx.eval();
    ctx.class("duplicate-registration");
    let a = run_pratt(c);
    let b = run_const_pratt(c);
    let same = match (&a, &b) {
        (Ok(x), Ok(y)) => x == y,
        (Err(_), Err(_)) => true,
        _ => false,
    };
    if !same {
        return Err(Fail::new("c13:const-pratt-vs-pratt:duplicate-registration", format!("table {:?} sequence {:?}: PrattParser gives {a:?}, ConstPrattParser gives {b:?}", c.table.levels, c.seq), case_json(c)));
    }
    if a.is_ok() {
        ctx.class("duplicate-registration:both-parse");
    }
    Ok(())
}

fn has_duplicate(t: &Table) -> bool {
    let ids: Vec<u8> = t.levels.iter().flatten().map(|(r, _)| *r).collect();
    let set: std::collections::BTreeSet<u8> = ids.iter().copied().collect();
    set.len() != ids.len()
}

fn table_strategy(infix_only: bool) -> BoxedStrategy<Table> {
    let kind = if infix_only {
        prop_oneof![Just(Kind::InfixL), Just(Kind::InfixR)].boxed()
    } else {
        prop_oneof![2 => Just(Kind::Prefix), 2 => Just(Kind::Postfix), 3 => Just(Kind::InfixL), 3 => Just(Kind::InfixR)].boxed()
    };
    proptest::collection::vec(proptest::collection::vec(kind, 1..=3), 1..=6)
        .prop_map(move |levels| {
            let mut id = 0u8;
            Table {
                levels: levels
                    .into_iter()
                    .map(|l| {
                        let first = l[0];
                        l.into_iter()
                            .map(|k| {
                                id += 1;
                                // PrecClimber tables: one associativity per level
                                (id, if infix_only { first } else { k })
                            })
                            .collect()
                    })
                    .collect(),
            }
        })
        .boxed()
}

/// Well-formed sequence: prefix* operand postfix* (infix prefix* operand postfix*)*
fn case_strategy(infix_only: bool) -> BoxedStrategy<Case> {
    (table_strategy(infix_only), proptest::collection::vec((proptest::collection::vec(any::<u16>(), 0..3), proptest::collection::vec(any::<u16>(), 0..3), any::<u16>()), 1..=12))
        .prop_map(|(table, groups)| {
            let all: Vec<(u8, Kind)> = table.levels.iter().flatten().copied().collect();
            let pre: Vec<u8> = all.iter().filter(|(_, k)| *k == Kind::Prefix).map(|(r, _)| *r).collect();
            let post: Vec<u8> = all.iter().filter(|(_, k)| *k == Kind::Postfix).map(|(r, _)| *r).collect();
            let inf: Vec<u8> = all.iter().filter(|(_, k)| matches!(k, Kind::InfixL | Kind::InfixR)).map(|(r, _)| *r).collect();
            let pick = |v: &Vec<u8>, x: u16| v[(x as usize * v.len()) >> 16];
            let mut seq = vec![];
            for (gi, (pres, posts, infx)) in groups.iter().enumerate() {
                if gi > 0 {
                    if inf.is_empty() {
                        break;
                    }
                    seq.push(pick(&inf, *infx));
                }
                if !pre.is_empty() {
                    for x in pres {
                        seq.push(pick(&pre, *x));
                    }
                }
                seq.push(0);
                if !post.is_empty() {
                    for x in posts {
                        seq.push(pick(&post, *x));
                    }
                }
            }
            Case { table, seq }
        })
        .boxed()
}

pub fn run(ctx: &mut Ctx) {
    let n = ctx.share(ctx.tier.pick(300_000, 8_000_000));
    ctx.run_prop(n, 1, case_strategy(false), |ctx, c| check(ctx, c));
    ctx.run_prop(n / 3, 2, case_strategy(true), |ctx, c| check(ctx, c));
    // one rule registered twice: only the agreement of the two Pratt parsers is asserted
    let dup = (case_strategy(false), any::<u16>(), any::<u16>(), 0u8..4).prop_map(|(mut c, which, level, kind)| {
        let all: Vec<(u8, Kind)> = c.table.levels.iter().flatten().copied().collect();
        let (r, _) = all[(which as usize * all.len()) >> 16];
        let l = (level as usize * c.table.levels.len()) >> 16;
        let k = [Kind::Prefix, Kind::Postfix, Kind::InfixL, Kind::InfixR][kind as usize];
        c.table.levels[l].push((r, k));
        c
    });
    ctx.run_prop(n / 6, 3, dup, |ctx, c| check_duplicate(ctx, c));
    // exhaustive block: a fixed 3-level table with every kind, all well-formed sequences with <= k operands
    let k = ctx.tier.pick(3, 4);
    let table = Table { levels: vec![vec![(1, Kind::InfixL), (2, Kind::Prefix)], vec![(3, Kind::InfixR), (4, Kind::Postfix)], vec![(5, Kind::Prefix), (6, Kind::InfixL), (7, Kind::Postfix)]] };
    let pre = [2u8, 5];
    let post = [4u8, 7];
    let inf = [1u8, 3, 6];
    // enumerate: each operand group has 0..=1 prefix and 0..=1 postfix (from the lists) -> (1+2)*(1+2)=9 shapes
    let mut groups: Vec<Vec<u8>> = vec![];
    for p in std::iter::once(None).chain(pre.iter().map(Some)) {
        for q in std::iter::once(None).chain(post.iter().map(Some)) {
            let mut g = vec![];
            if let Some(p) = p {
                g.push(*p);
            }
            g.push(0);
            if let Some(q) = q {
                g.push(*q);
            }
            groups.push(g);
        }
    }
    let mut idx = 0u64;
    let mut stop = false;
    fn rec(ctx: &mut Ctx, table: &Table, groups: &[Vec<u8>], inf: &[u8], seq: &mut Vec<u8>, left: usize, idx: &mut u64, stop: &mut bool) {
        if *stop {
            return;
        }
        for g in groups {
            let l0 = seq.len();
            seq.extend(g);
            *idx += 1;
            if *idx % ctx.nshards == ctx.shard {
                let c = Case { table: table.clone(), seq: seq.clone() };
                if let Err(f) = check(ctx, &c) {
                    if ctx.report(f) {
                        *stop = true;
                    }
                }
            }
            if left > 1 {
                for i in inf {
                    seq.push(*i);
                    rec(ctx, table, groups, inf, seq, left - 1, idx, stop);
                    seq.pop();
                }
            }
            seq.truncate(l0);
        }
    }
    rec(ctx, &table, &groups, &inf, &mut vec![], k, &mut idx, &mut stop);
    ctx.exhaustive = false; // only the fixed-table block is exhaustive
    ctx.class_n(&format!("exhaustive-fixed-table-operands<={k}"), 1);
}

pub fn replay(case: &Value) -> Result<(), Fail> {
    let c = case_from_json(case);
    let mut ctx = Ctx::new("C13", Tier::Quick, 0, 0, 1);
    if has_duplicate(&c.table) {
        return check_duplicate(&mut ctx, &c);
    }
    check(&mut ctx, &c)
}

pub const DEF: CheckDef = CheckDef {
    id: "C13",
    rule: "proptest operator tables (1-6 levels x 1-3 operators, each prefix/postfix/infix-left/infix-right; a second stream of infix-only tables with one associativity per level for PrecClimber; a third stream re-registers one rule at another level/kind, for which only PrattParser == ConstPrattParser is asserted) x well-formed sequences prefix* operand postfix* (infix prefix* operand postfix*)* of <= 12 operands realised as flat Pairs via PairsBuilder; plus every sequence of <= 3 (thorough 4) operand groups over a fixed 3-level table with all four kinds. Oracle: an independently written two-stack shunting-yard with the binding powers of the statement; PrattParser, ConstPrattParser::new_const (same table) and, where applicable, PrecClimber must yield the same S-expression; independent validity predicate (each operator token once, operands in input order). Non-trivial = >= 3 levels used and (a prefix operator of lower level than a later infix operator, or both associativities present); distinct = distinct (table, sequence).",
    assumptions: &["tables have distinct rule ids; rule id 0 is the operand"],
    floor: |t| t.pick(10_000, 100_000),
    shards: |_| 16,
    run,
    replay,
    journal: false,
    pre: None,
};
