//! C11 — the backtracking stack is transactional for every history.
//! Oracle: naive model (full copy per snapshot). Exhaustive small scope + proptest histories.

use crate::fw::*;
use proptest::prelude::*;
use serde_json::{json, Value};

#[derive(Clone, Copy, Debug, PartialEq, Eq, Hash)]
pub enum Op {
    Push,
    Pop,
    Peek,
    Snapshot,
    Clear,
    Restore,
}
const OPS: [Op; 6] = [Op::Push, Op::Pop, Op::Peek, Op::Snapshot, Op::Clear, Op::Restore];

fn op_name(o: Op) -> &'static str {
    match o {
        Op::Push => "push",
        Op::Pop => "pop",
        Op::Peek => "peek",
        Op::Snapshot => "snapshot",
        Op::Clear => "clear_snapshot",
        Op::Restore => "restore",
    }
}
fn op_from(s: &str) -> Op {
    *OPS.iter().find(|o| op_name(**o) == s).expect("op name")
}

#[derive(Default)]
struct Model {
    cur: Vec<u32>,
    snaps: Vec<Vec<u32>>,
}

struct Facts {
    max_depth: usize,
    pop_below_inner: bool,
    merge_path: bool, // clear_snapshot (nested, after a pop below the line) followed later by restore
    repush_after: bool,
}

/// Runs one history against real stack and model. Returns Err(step, message) on mismatch.
fn run_history(ops: &[Op]) -> (Result<(), (usize, String)>, Facts) {
    let mut facts = Facts { max_depth: 0, pop_below_inner: false, merge_path: false, repush_after: false };
    let mut m = Model::default();
    let mut pending_merge = false;
    let mut popped_below = false;
    let res = catch(|| {
        let mut s: pest::Stack<u32> = pest::Stack::new();
        for (i, op) in ops.iter().enumerate() {
            match op {
                Op::Push => {
                    if popped_below {
                        facts.repush_after = true;
                    }
                    s.push(i as u32);
                    m.cur.push(i as u32);
                }
                Op::Pop => {
                    if let Some(top) = m.snaps.last() {
                        if m.snaps.len() >= 2 && m.cur.len() <= top.len() && !m.cur.is_empty() {
                            facts.pop_below_inner = true;
                            popped_below = true;
                        }
                    }
                    let a = s.pop();
                    let b = m.cur.pop();
                    if a != b {
                        return Err((i, format!("pop returned {a:?}, model {b:?}")));
                    }
                }
                Op::Peek => {
                    let a = s.peek().copied();
                    let b = m.cur.last().copied();
                    if a != b {
                        return Err((i, format!("peek returned {a:?}, model {b:?}")));
                    }
                }
                Op::Snapshot => {
                    s.snapshot();
                    m.snaps.push(m.cur.clone());
                    facts.max_depth = facts.max_depth.max(m.snaps.len());
                }
                Op::Clear => {
                    s.clear_snapshot();
                    if m.snaps.len() >= 2 && popped_below {
                        pending_merge = true;
                    }
                    m.snaps.pop();
                }
                Op::Restore => {
                    s.restore();
                    if pending_merge && !m.snaps.is_empty() {
                        facts.merge_path = true;
                    }
                    pending_merge = false;
                    popped_below = false;
                    match m.snaps.pop() {
                        Some(c) => m.cur = c,
                        None => m.cur.clear(),
                    }
                }
            }
            if s.len() != m.cur.len() {
                return Err((i, format!("len {} after {}, model {}", s.len(), op_name(*op), m.cur.len())));
            }
            if s.is_empty() != m.cur.is_empty() {
                return Err((i, "is_empty disagrees".to_string()));
            }
            let got: Vec<u32> = s[0..s.len()].to_vec();
            if got != m.cur {
                return Err((i, format!("contents {:?} after {}, model {:?}", got, op_name(*op), m.cur)));
            }
        }
        Ok(())
    });
    let res = match res {
        Ok(r) => r,
        Err(p) => Err((ops.len(), format!("panic: {p}"))),
    };
    (res, facts)
}

fn case_json(ops: &[Op]) -> Value {
    json!({"ops": ops.iter().map(|o| op_name(*o)).collect::<Vec<_>>()})
}

fn check(ctx: &mut Ctx, ops: &[Op]) -> Result<(), Fail> {
    ctx.eval();
    let (res, facts) = run_history(ops);
    if facts.max_depth >= 2 && (facts.merge_path || (facts.pop_below_inner && facts.repush_after)) {
        ctx.nontrivial(ops);
        ctx.class("nontrivial");
        ctx.sample(|| case_json(ops));
    }
    if facts.merge_path {
        ctx.class("merge_path");
    }
    if facts.max_depth >= 3 {
        ctx.class("depth>=3");
    }
    match res {
        Ok(()) => Ok(()),
        Err((step, msg)) => {
            let what = if msg.starts_with("panic") { "panic" } else { "state-mismatch" };
            let last = ops.get(step.min(ops.len().saturating_sub(1))).map(|o| op_name(*o)).unwrap_or("-");
            Err(Fail::new(
                format!("stack:{what}:{last}"),
                format!("history {:?}: step {step}: {msg}", ops.iter().map(|o| op_name(*o)).collect::<Vec<_>>()),
                case_json(ops),
            ))
        }
    }
}

fn op_strategy() -> impl Strategy<Value = Op> {
    prop_oneof![
        4 => Just(Op::Push),
        4 => Just(Op::Pop),
        1 => Just(Op::Peek),
        3 => Just(Op::Snapshot),
        2 => Just(Op::Clear),
        2 => Just(Op::Restore),
    ]
}

pub fn run(ctx: &mut Ctx) {
    // exhaustive block: all histories of length <= k, partitioned across shards by first two ops
    let k: usize = ctx.tier.pick(8, 10);
    let mut buf: Vec<Op> = Vec::with_capacity(k);
    fn rec(ctx: &mut Ctx, buf: &mut Vec<Op>, k: usize, stop: &mut bool) {
        if *stop {
            return;
        }
        if !buf.is_empty() {
            if let Err(f) = check(ctx, buf) {
                if ctx.report(f) {
                    *stop = true;
                }
                // every extension of a failing history fails too: prune
                return;
            }
        }
        if buf.len() == k {
            return;
        }
        for o in OPS {
            if buf.len() == 1 {
                // partition on the (first, second) op pair
                let idx = (OPS.iter().position(|x| *x == buf[0]).unwrap() * 6
                    + OPS.iter().position(|x| *x == o).unwrap()) as u64;
                if idx % ctx.nshards != ctx.shard {
                    continue;
                }
            }
            buf.push(o);
            rec(ctx, buf, k, stop);
            buf.pop();
        }
    }
    let mut stop = false;
    // length-1 histories are checked by shard 0 only
    if ctx.shard == 0 {
        for o in OPS {
            if let Err(f) = check(ctx, &[o]) {
                ctx.report(f);
            }
        }
    }
    for o in OPS {
        buf.clear();
        buf.push(o);
        // skip re-checking the length-1 prefix itself
        for o2 in OPS {
            let idx = (OPS.iter().position(|x| *x == o).unwrap() * 6
                + OPS.iter().position(|x| *x == o2).unwrap()) as u64;
            if idx % ctx.nshards != ctx.shard {
                continue;
            }
            buf.push(o2);
            rec(ctx, &mut buf, k, &mut stop);
            buf.pop();
        }
    }
    ctx.exhaustive = !stop;
    ctx.class_n(&format!("exhaustive_len<={k}"), 1);

    // random block: long histories
    let cases = ctx.share(ctx.tier.pick(400_000, 20_000_000));
    let strat = proptest::collection::vec(op_strategy(), 1..60);
    ctx.run_prop(cases, 1, strat, |ctx, ops| check(ctx, ops));
    // deep-nesting biased block: snapshot-heavy prefix
    let strat2 = (proptest::collection::vec(prop_oneof![Just(Op::Push), Just(Op::Snapshot)], 2..10),
        proptest::collection::vec(op_strategy(), 1..50))
        .prop_map(|(mut a, b)| { a.extend(b); a });
    ctx.run_prop(cases / 2, 2, strat2, |ctx, ops| check(ctx, ops));
}

pub fn replay(case: &Value) -> Result<(), Fail> {
    let ops: Vec<Op> = case["ops"].as_array().expect("ops").iter().map(|v| op_from(v.as_str().unwrap())).collect();
    let mut ctx = Ctx::new("C11", Tier::Quick, 0, 0, 1);
    check(&mut ctx, &ops)
}

pub const DEF: CheckDef = CheckDef {
    id: "C11",
    rule: "Histories over {push(step index), pop, peek, snapshot, clear_snapshot, restore} on pest::Stack<u32>: every history up to length k (k=8 quick, 10 thorough) enumerated exhaustively, plus proptest-generated histories of length <60 (one plain, one with a snapshot-heavy prefix); after every operation len/is_empty/full contents (Index<Range>)/peek/pop are compared with a copy-per-snapshot model under catch_unwind. Non-trivial = snapshot depth >= 2 and either a clear_snapshot after a pop below the inner snapshot line followed by a restore (merge path) or a re-push after such a pop; distinct = distinct op sequence.",
    assumptions: &["pushed values are the step index (distinct per history), which distinguishes any element mix-up", "debug assertions are compiled in (harness release profile enables them)"],
    floor: |t| t.pick(1000, 10000),
    shards: |_| 16,
    run,
    replay,
    journal: false,
    pre: None,
};
