//! C05 — optimizer passes preserve the meaning of every grammar. Each rewriting pass is applied
//! on its own (hook: pest_meta::optimizer::verif) and the reference semantics of the rules before
//! and after must agree on EVERY string up to length k over the grammar's alphabet, for every
//! start rule: outcome, end position, tokens and the stack left behind. restore_on_err is
//! checked operationally: VM(restore_on_err(to_optimized(G))) against refsem(G).

use crate::c01::{case_json, prepare, vm_call_limit};
use crate::fw::*;
use crate::gram::*;
use crate::inputs::*;
use crate::refsem::{self, Outcome};
use crate::vmrun::*;
use pest_meta::ast::{Expr, Rule as AstRule};
use pest_meta::optimizer::verif as v;
use pest_vm::Vm;
use proptest::prelude::*;
use serde_json::Value;

pub const PASSES: [&str; 6] = ["rotate", "skip", "unroll", "concatenate", "factor", "list"];

fn apply_pass(name: &str, rules: &[AstRule]) -> Vec<AstRule> {
    rules
        .iter()
        .cloned()
        .map(|r| match name {
            "rotate" => v::rotate(r),
            "skip" => v::skip(r, rules),
            "unroll" => v::unroll(r),
            "concatenate" => v::concatenate(r),
            "factor" => v::factor(r),
            "list" => v::list(r),
            _ => unreachable!(),
        })
        .collect()
}

/// The harness's own statement of the lister's documented rewrite
/// `(rule ~ rest)* ~ rule  =>  rule ~ (rest ~ rule)*`, used only to name the open finding D7
/// precisely: a failure of the list pass is D7 iff the pass produced exactly this rewrite.
fn reference_list(e: Expr) -> Expr {
    e.map_bottom_up(|e| match e {
        Expr::Seq(l, r) => match *l {
            Expr::Rep(inner) => match *inner {
                Expr::Seq(l1, l2) if l1 == r => Expr::Seq(l1, Box::new(Expr::Rep(Box::new(Expr::Seq(l2, r))))),
                other => Expr::Seq(Box::new(Expr::Rep(Box::new(other))), r),
            },
            other => Expr::Seq(Box::new(other), r),
        },
        other => other,
    })
}

pub fn pick_alphabet(cg: &refsem::CGrammar, n: usize) -> Vec<char> {
    let all = alphabet(cg);
    if all.len() <= n {
        return all;
    }
    let prio = [' ', 'a', 'b', 'c', '%', '\n', '1', 'é', 'A', 'z', '\r', 'B', '0'];
    let mut out: Vec<char> = prio.iter().copied().filter(|c| all.contains(c)).take(n).collect();
    for c in all {
        if out.len() >= n {
            break;
        }
        if !out.contains(&c) {
            out.push(c);
        }
    }
    out
}

/// Outcome equality without node tags: where a tag lands is not documented (it is attached to
/// whatever End token happens to be last, even one emitted before the tagged expression), so
/// tags are outside what this check asserts.
fn same_outcome(a: &Outcome, b: &Outcome) -> bool {
    match (a, b) {
        (Outcome::Match { end: e1, tokens: t1, stack: s1 }, Outcome::Match { end: e2, tokens: t2, stack: s2 }) => {
            e1 == e2 && s1 == s2 && t1.iter().map(|t| (t.start, &t.rule, t.pos)).eq(t2.iter().map(|t| (t.start, &t.rule, t.pos)))
        }
        (Outcome::NoMatch, Outcome::NoMatch) => true,
        _ => false,
    }
}

fn outcome_str(o: &Outcome) -> String {
    match o {
        Outcome::Match { end, tokens, stack } => format!("match end={end} pairs=`{}` stack={stack:?}", toks_to_string(tokens)),
        Outcome::NoMatch => "no match".into(),
        Outcome::Diverges(s) => format!("diverges ({s})"),
        Outcome::Undefined(s) => format!("undefined ({s})"),
    }
}

fn exprs_of(rules: &[AstRule]) -> String {
    rules.iter().map(|r| format!("{} = {:?}{{ {} }}", r.name, r.ty, r.expr)).collect::<Vec<_>>().join("\n")
}

pub fn check_grammar(ctx: &mut Ctx, g: &Gram, k: usize) -> Result<(), Fail> {
    let Some(p) = prepare(ctx, g)? else { return Ok(()) };
    let alpha = pick_alphabet(&p.cg, 5);
    let inputs = enumerate(&alpha, k);
    let mut stage = p.compiled_ast.clone();
    let mut cg_before = p.cg.clone();
    for pass in PASSES {
        let after = catch(|| apply_pass(pass, &stage)).map_err(|e| {
            Fail::new(format!("c05:{pass}:panic"), format!("grammar:\n{}pass {pass} panicked: {e}", p.text), case_json(&p.text, "", ""))
        })?;
        let changed = after != stage;
        ctx.class(&format!("pass:{pass}:{}", if changed { "changed" } else { "unchanged" }));
        if changed {
            let cg_after = refsem::grammar_from_ast(&after, EXTRAS).map_err(|e| {
                Fail::new(format!("c05:{pass}:ill-formed-output"), format!("grammar:\n{}pass {pass} produced an expression without meaning: {e}", p.text), case_json(&p.text, "", ""))
            })?;
            let (mut acc, mut rej) = (false, false);
            for rule in &p.rules {
                for input in &inputs {
                    ctx.eval();
                    let (a, _) = refsem::run(&cg_before, rule, input);
                    let (b, _) = refsem::run(&cg_after, rule, input);
                    match (&a, &b) {
                        (Outcome::Diverges(_) | Outcome::Undefined(_), _) | (_, Outcome::Diverges(_) | Outcome::Undefined(_)) => {
                            ctx.class("skipped:undefined-or-diverges");
                            continue;
                        }
                        _ => {}
                    }
                    match &a {
                        Outcome::Match { .. } => acc = true,
                        _ => rej = true,
                    }
                    if !same_outcome(&a, &b) {
                        let sig = if pass == "list" {
                            let expected: Vec<Expr> = stage.iter().map(|r| reference_list(r.expr.clone())).collect();
                            if expected == after.iter().map(|r| r.expr.clone()).collect::<Vec<_>>() {
                                "c05:list:(x~y)*~x=>x~(y~x)*".to_string()
                            } else {
                                "c05:list:other-rewrite".to_string()
                            }
                        } else {
                            format!("c05:{pass}")
                        };
                        let mut case = case_json(&p.text, rule, input);
                        case["pass"] = Value::String(pass.to_string());
                        return Err(Fail::new(
                            sig,
                            format!(
                                "grammar:\n{}pass `{pass}` changes the meaning of rule {rule} on input {input:?}:\n before: {}\n after:  {}\n rules before the pass:\n{}\n rules after the pass:\n{}",
                                p.text, outcome_str(&a), outcome_str(&b), exprs_of(&stage), exprs_of(&after)
                            ),
                            case,
                        ));
                    }
                }
            }
            if acc && rej {
                ctx.nontrivial(&(p.text.as_str(), pass));
                ctx.class(&format!("nt:{pass}"));
                let t = p.text.clone();
                ctx.sample(|| serde_json::json!({"config": config_name(), "grammar": t, "pass": pass, "inputs": format!("all {} strings of length <= {k} over {:?}", inputs.len(), alpha)}));
            }
            cg_before = cg_after;
        }
        stage = after;
    }
    // restore_on_err, operationally: the real VM on the fully rewritten rules
    let opt: Vec<_> = stage.iter().cloned().map(v::to_optimized).collect();
    let restored: Vec<_> = catch(|| opt.iter().cloned().map(|r| v::restore_on_err(r, &opt)).collect::<Vec<_>>()).map_err(|e| {
        Fail::new("c05:restore_on_err:panic", format!("grammar:\n{}restore_on_err panicked: {e}", p.text), case_json(&p.text, "", ""))
    })?;
    let changed = restored != opt;
    ctx.class(&format!("pass:restore_on_err:{}", if changed { "changed" } else { "unchanged" }));
    let vm = Vm::new(restored);
    let (mut acc, mut rej) = (false, false);
    for rule in &p.rules {
        for input in &inputs {
            ctx.eval();
            let (a, facts) = refsem::run(&cg_before, rule, input);
            let toks = match &a {
                Outcome::Diverges(_) | Outcome::Undefined(_) => {
                    ctx.class("skipped:undefined-or-diverges");
                    continue;
                }
                Outcome::Match { tokens, .. } => {
                    acc = true;
                    Some(tokens)
                }
                Outcome::NoMatch => {
                    rej = true;
                    None
                }
            };
            let real = run_vm_limited(&vm, rule, input, vm_call_limit(facts.steps));
            let ok = match (&toks, &real) {
                (Some(t), VmOut::Ok(r)) => t.iter().map(|x| (x.start, &x.rule, x.pos)).eq(r.iter().map(|x| (x.start, &x.rule, x.pos))),
                (None, VmOut::Err { custom: None, .. }) => true,
                _ => false,
            };
            if !ok {
                let mut case = case_json(&p.text, rule, input);
                case["pass"] = Value::String("restore_on_err".into());
                return Err(Fail::new(
                    "c05:restore_on_err",
                    format!(
                        "grammar:\n{}rule {rule} input {input:?}: rewritten rules mean {}, but the VM running restore_on_err(to_optimized(rules)) gives {:?}\n optimized rules: {:?}",
                        p.text, outcome_str(&a), real, vm_rules_str(&opt)
                    ),
                    case,
                ));
            }
        }
    }
    if changed && acc && rej {
        ctx.nontrivial(&(p.text.as_str(), "restore_on_err"));
        ctx.class("nt:restore_on_err");
    }
    Ok(())
}

fn vm_rules_str(r: &[pest_meta::optimizer::OptimizedRule]) -> String {
    r.iter().map(|r| format!("{} = {:?}{{ {} }}", r.name, r.ty, r.expr)).collect::<Vec<_>>().join(" ; ")
}

/// Rules shaped like what each pass matches; sub-expressions come from the general strategy.
fn targeted_rule(cfg: &GenCfg) -> BoxedStrategy<(Ty, GE)> {
    let mut small = cfg.clone();
    small.depth = 2;
    let e = expr_strategy(&small);
    let bx = |x: GE| Box::new(x);
    let strs = || proptest::collection::vec(0..STRS.len(), 1..5);
    let any_ty = prop_oneof![Just(Ty::Normal), Just(Ty::Atomic), Just(Ty::Compound), Just(Ty::NonAtomic), Just(Ty::Silent)];
    let atomicish = prop_oneof![3 => Just(Ty::Atomic), 2 => Just(Ty::Compound), 1 => Just(Ty::Normal)];
    prop_oneof![
        // factorizer
        (any_ty.clone(), e.clone(), e.clone(), e.clone()).prop_map(move |(t, a, b, c)| (t, GE::Choice(bx(GE::Seq(bx(a.clone()), bx(b))), bx(GE::Seq(bx(a), bx(c)))))),
        (atomicish.clone(), e.clone(), e.clone()).prop_map(move |(t, a, b)| (t, GE::Choice(bx(GE::Seq(bx(a.clone()), bx(b))), bx(a)))),
        (any_ty.clone(), e.clone(), e.clone()).prop_map(move |(t, a, b)| (t, GE::Choice(bx(a.clone()), bx(GE::Seq(bx(a), bx(b)))))),
        // lister
        (any_ty.clone(), e.clone(), e.clone(), e.clone()).prop_map(move |(t, x, y, z)| (t, GE::Seq(bx(GE::Seq(bx(GE::Rep(bx(GE::Seq(bx(x.clone()), bx(y))))), bx(x))), bx(z)))),
        (any_ty.clone(), e.clone(), e.clone()).prop_map(move |(t, x, y)| (t, GE::Seq(bx(GE::Rep(bx(GE::Seq(bx(x.clone()), bx(y))))), bx(x)))),
        // rotator
        (any_ty.clone(), e.clone(), e.clone(), e.clone(), e.clone(), any::<bool>()).prop_map(move |(t, a, b, c, d, ch)| {
            if ch {
                (t, GE::Choice(bx(GE::Choice(bx(GE::Choice(bx(a), bx(b))), bx(c))), bx(d)))
            } else {
                (t, GE::Seq(bx(GE::Seq(bx(GE::Seq(bx(a), bx(b))), bx(c))), bx(d)))
            }
        }),
        // skipper (atomic; strings and references to string rules)
        (atomicish.clone(), strs(), proptest::option::of(any::<u8>()), e.clone()).prop_map(move |(t, ix, r, tail)| {
            let mut sh = skipper_shape(&ix.iter().map(|i| STRS[*i]).collect::<Vec<_>>());
            if let Some(r) = r {
                // put a rule reference among the alternatives
                if let GE::Rep(b) = &mut sh {
                    if let GE::Seq(n, _) = &mut **b {
                        if let GE::Neg(alt) = &mut **n {
                            let old = std::mem::replace(&mut **alt, GE::Str(String::new()));
                            **alt = GE::Choice(Box::new(GE::Ref(r)), Box::new(old));
                        }
                    }
                }
            }
            (t, GE::Seq(bx(sh), bx(tail)))
        }),
        // concatenator
        (atomicish.clone(), strs(), any::<bool>()).prop_map(move |(t, ix, ins)| {
            let mut it = ix.iter().map(|i| if ins { GE::Insens(STRS[*i].to_string()) } else { GE::Str(STRS[*i].to_string()) });
            let mut acc = it.next().unwrap();
            for x in it {
                acc = GE::Seq(bx(acc), bx(x));
            }
            (t, acc)
        }),
        // unroller
        (any_ty.clone(), e.clone(), 0u32..=3, 0u32..=2, 0u8..4).prop_map(move |(t, a, m, d, which)| {
            let x = match which {
                0 => GE::RepExact(bx(a), m.max(1)),
                1 => GE::RepMin(bx(a), m),
                2 => GE::RepMax(bx(a), m.max(1)),
                _ => GE::RepMinMax(bx(a), m, (m + d).max(1)),
            };
            (t, x)
        }),
        // restorer: stack ops under ? | *
        (any_ty, e.clone(), e.clone(), 0u8..5).prop_map(move |(t, a, b, which)| {
            let pushy = GE::Push(bx(a));
            let popper = [GE::Builtin("POP"), GE::Builtin("POP_ALL"), GE::Builtin("DROP"), GE::Builtin("PEEK"), GE::Builtin("PEEK_ALL")][which as usize % 5].clone();
            let alt = GE::Choice(bx(GE::Seq(bx(popper.clone()), bx(b.clone()))), bx(GE::Opt(bx(popper))));
            (t, GE::Seq(bx(pushy), bx(GE::Seq(bx(alt), bx(GE::Rep(bx(GE::Seq(bx(GE::Builtin("POP")), bx(b)))))))))
        }),
    ]
    .boxed()
}

pub fn c05_grammar_strategy(cfg: GenCfg) -> BoxedStrategy<Gram> {
    let base = grammar_strategy(cfg.clone());
    (base, proptest::collection::vec(targeted_rule(&cfg), 0..3), any::<u8>())
        .prop_map(|(mut g, extra, at)| {
            let n_users = g.user_rules().len();
            for (k, (ty, expr)) in extra.into_iter().enumerate() {
                // overwrite user rules with targeted ones (keeps names, keeps references valid)
                let idx = ((at as usize) + k) % n_users;
                let name = g.user_rules()[idx].name.clone();
                let r = g.rules.iter_mut().find(|r| r.name == name).unwrap();
                r.ty = ty;
                r.expr = expr;
            }
            repair(&mut g);
            g
        })
        .boxed()
}

pub fn run(ctx: &mut Ctx) {
    let mut cfg = GenCfg::standard(EXTRAS);
    cfg.max_rules = 4;
    cfg.ws_prob = 0.6;
    let n = ctx.share(ctx.tier.pick(100_000, 2_000_000));
    let k = 3;
    ctx.run_prop(n, 1, c05_grammar_strategy(cfg.clone()), move |ctx, g| check_grammar(ctx, g, k));
    // terminal-heavy grammars: adjacent (in)sensitive literals incl. non-ASCII case pairs, skipper shapes over related needles
    let nt = ctx.share(ctx.tier.pick(30_000, 600_000));
    ctx.run_prop(nt, 3, terminal_heavy_grammar(), move |ctx, g| {
        ctx.class("stream:terminal-heavy");
        check_grammar(ctx, g, k)
    });
    if ctx.tier == Tier::Thorough {
        let n4 = ctx.share(40_000);
        ctx.run_prop(n4, 2, c05_grammar_strategy(cfg), move |ctx, g| check_grammar(ctx, g, 4));
    }
}

pub fn replay(case: &Value) -> Result<(), Fail> {
    // re-run the whole per-pass comparison for this grammar on the saved input only
    let text = case["grammar"].as_str().expect("grammar");
    let rule = case["rule"].as_str().expect("rule");
    let input = case["input"].as_str().expect("input");
    let c = match compile(text) {
        Ok(c) => c,
        Err(e) if e.starts_with("PANIC") => return Err(Fail::new("front-end-panic", e, case.clone())),
        Err(_) => return Ok(()),
    };
    let Ok(mut cg_before) = refsem::grammar_from_ast(&c.ast, EXTRAS) else { return Ok(()) };
    let mut stage = c.ast.clone();
    for pass in PASSES {
        let after = apply_pass(pass, &stage);
        if after != stage {
            let cg_after = refsem::grammar_from_ast(&after, EXTRAS).map_err(|e| Fail::new(format!("c05:{pass}:ill-formed-output"), e, case.clone()))?;
            let (a, _) = refsem::run(&cg_before, rule, input);
            let (b, _) = refsem::run(&cg_after, rule, input);
            let skip = matches!(a, Outcome::Diverges(_) | Outcome::Undefined(_)) || matches!(b, Outcome::Diverges(_) | Outcome::Undefined(_));
            if !skip && !same_outcome(&a, &b) {
                let sig = if pass == "list" {
                    let expected: Vec<Expr> = stage.iter().map(|r| reference_list(r.expr.clone())).collect();
                    if expected == after.iter().map(|r| r.expr.clone()).collect::<Vec<_>>() {
                        "c05:list:(x~y)*~x=>x~(y~x)*".to_string()
                    } else {
                        "c05:list:other-rewrite".to_string()
                    }
                } else {
                    format!("c05:{pass}")
                };
                return Err(Fail::new(sig, format!("pass `{pass}` changes rule {rule} on {input:?}: before {} / after {}", outcome_str(&a), outcome_str(&b)), case.clone()));
            }
            cg_before = cg_after;
        }
        stage = after;
    }
    let opt: Vec<_> = stage.iter().cloned().map(v::to_optimized).collect();
    let restored: Vec<_> = opt.iter().cloned().map(|r| v::restore_on_err(r, &opt)).collect();
    let vm = Vm::new(restored);
    let (a, facts) = refsem::run(&cg_before, rule, input);
    let real = run_vm_limited(&vm, rule, input, vm_call_limit(facts.steps));
    let ok = match (&a, &real) {
        (Outcome::Diverges(_) | Outcome::Undefined(_), _) => true,
        (Outcome::Match { tokens, .. }, VmOut::Ok(r)) => tokens.iter().map(|x| (x.start, &x.rule, x.pos)).eq(r.iter().map(|x| (x.start, &x.rule, x.pos))),
        (Outcome::NoMatch, VmOut::Err { custom: None, .. }) => true,
        _ => false,
    };
    if !ok {
        return Err(Fail::new("c05:restore_on_err", format!("rule {rule} on {input:?}: rewritten rules mean {}, VM gives {real:?}", outcome_str(&a)), case.clone()));
    }
    Ok(())
}

pub const DEF: CheckDef = CheckDef {
    id: "C05",
    rule: "proptest-generated valid grammars in which up to two rules are shaped like what each pass matches (shared prefixes a~b|a~c, a~b|a, a|a~b; (x~y)*~x; left-nested ~ and |; atomic (!(strings|rule)~ANY)*; adjacent literals in atomic rules; every bounded repetition; stack ops under ? | *), x EVERY string of length <= 3 (thorough: also <= 4) over up to 5 symbols of the grammar's alphabet x every start rule. For each pass in pipeline order {rotate, skip, unroll, concatenate, factor, list} (applied through the cfg hook) the reference semantics of the rules before and after the pass must give the same outcome, end position, token stream and final stack; restore_on_err is checked with the real VM on restore_on_err(to_optimized(rewritten rules)) against the reference semantics of the rewritten rules. Non-trivial = the pass changed some rule AND among the enumerated inputs at least one is accepted and one rejected; distinct = distinct (grammar, pass). Both feature configurations.",
    assumptions: &[
        "equivalence is judged by the reference evaluator (refsem.rs) on both sides, so a semantic question the evaluator models wrongly would cancel out; C01 compares the same evaluator with the real VM",
        "inputs on which either side is undefined (empty-stack POP/PEEK) or diverges are skipped and counted",
    ],
    floor: |t| t.pick(20_000, 300_000),
    shards: |_| 16,
    run,
    replay,
    journal: false,
    pre: None,
};
