//! C01 — parsing conforms to the documented PEG semantics: refsem(unoptimized AST) vs the real
//! front-end + optimizer + VM, on generated grammars x every start rule x generated inputs,
//! plus an exhaustive block over all short strings of each grammar's alphabet.

use crate::fw::*;
use crate::gram::*;
use crate::inputs::*;
use crate::refsem::{self, CGrammar, Facts, Outcome};
use crate::vmrun::*;
use pest_vm::Vm;
use proptest::prelude::*;
use serde_json::{json, Value};

/// hang guard for the VM: generous multiple of the model's step count
pub fn vm_call_limit(model_steps: u64) -> usize {
    (model_steps as usize) * 40 + 4_000
}

pub fn case_json(text: &str, rule: &str, input: &str) -> Value {
    json!({"config": config_name(), "grammar": text, "rule": rule, "input": input})
}

/// True if the `list` pass rewrites some rule of this grammar (C05's open finding D7): such
/// grammars are set aside in C01.
pub fn lister_touches(ast: &[pest_meta::ast::Rule]) -> bool {
    use pest_meta::optimizer::verif as v;
    ast.iter().any(|r| {
        let pre = v::factor(v::concatenate(v::unroll(v::skip(v::rotate(r.clone()), ast))));
        v::list(pre.clone()) != pre
    })
}

#[derive(Debug, PartialEq, Eq, Clone, Copy)]
pub enum Verdict {
    AgreeMatch,
    AgreeNoMatch,
    SkippedDiverges,
    SkippedUndefined,
}

/// Compare model and VM on one (rule, input). `Err` = violation.
pub fn compare_one(text: &str, cg: &CGrammar, vm: &Vm, rule: &str, input: &str, prop: &str) -> Result<(Verdict, Facts), Fail> {
    let t0 = std::time::Instant::now();
    let (model, facts) = refsem::run(cg, rule, input);
    let t_model = t0.elapsed();
    if std::env::var_os("VERIF_DEBUG_SLOW").is_some() && t_model.as_millis() > 100 {
        eprintln!("SLOW model {:?}: {}", t_model, case_json(text, rule, input));
    }
    match &model {
        Outcome::Diverges(_) => return Ok((Verdict::SkippedDiverges, facts)),
        Outcome::Undefined(_) => return Ok((Verdict::SkippedUndefined, facts)),
        _ => {}
    }
    let limit = vm_call_limit(facts.steps);
    let t1 = std::time::Instant::now();
    let real = run_vm_limited(vm, rule, input, limit);
    if std::env::var_os("VERIF_DEBUG_SLOW").is_some() && t1.elapsed().as_millis() > 100 {
        eprintln!("SLOW vm {:?} (limit {limit}): {}", t1.elapsed(), case_json(text, rule, input));
    }
    let p = prop.to_lowercase();
    match (&model, &real) {
        (Outcome::Match { tokens, .. }, VmOut::Ok(toks)) => {
            if tokens.iter().map(|t| (t.start, &t.rule, t.pos)).ne(toks.iter().map(|t| (t.start, &t.rule, t.pos))) {
                return Err(Fail::new(
                    format!("{p}:tokens-mismatch"),
                    format!("grammar:\n{text}rule {rule} input {input:?}: documented semantics give pairs `{}`, VM gives `{}`", toks_to_string(tokens), toks_to_string(toks)),
                    case_json(text, rule, input),
                ));
            }
            Ok((Verdict::AgreeMatch, facts))
        }
        (Outcome::NoMatch, VmOut::Err { custom: None, .. }) => Ok((Verdict::AgreeNoMatch, facts)),
        (_, VmOut::Err { custom: Some(m), .. }) => Err(Fail::new(
            format!("{p}:vm-custom-error"),
            format!("grammar:\n{text}rule {rule} input {input:?}: VM returned custom error {m:?} (call limit {limit} = runaway parse?) where the model terminates in {} steps", facts.steps),
            case_json(text, rule, input),
        )),
        (Outcome::Match { tokens, end, .. }, VmOut::Err { pos, positives, negatives, .. }) => Err(Fail::new(
            format!("{p}:model-accepts-vm-rejects"),
            format!("grammar:\n{text}rule {rule} input {input:?}: documented semantics match (end {end}, pairs `{}`), VM fails at {pos} expected {positives:?} unexpected {negatives:?}", toks_to_string(tokens)),
            case_json(text, rule, input),
        )),
        (Outcome::NoMatch, VmOut::Ok(toks)) => Err(Fail::new(
            format!("{p}:model-rejects-vm-accepts"),
            format!("grammar:\n{text}rule {rule} input {input:?}: documented semantics do not match, VM accepts with pairs `{}`", toks_to_string(toks)),
            case_json(text, rule, input),
        )),
        (_, VmOut::Panic(m)) => Err(Fail::new(
            format!("{p}:vm-panic"),
            format!("grammar:\n{text}rule {rule} input {input:?}: VM panicked ({m}) where the model gives {}", match &model { Outcome::Match { .. } => "a match", _ => "no match" }),
            case_json(text, rule, input),
        )),
        _ => unreachable!(),
    }
}

pub fn record(ctx: &mut Ctx, text: &str, rule: &str, input: &str, v: Verdict, facts: &Facts, ntoks_hint: usize) {
    ctx.eval();
    match v {
        Verdict::AgreeMatch => ctx.class("parse:match"),
        Verdict::AgreeNoMatch => ctx.class("parse:nomatch"),
        Verdict::SkippedDiverges => ctx.class("parse:skipped-diverges"),
        Verdict::SkippedUndefined => ctx.class("parse:skipped-undefined"),
    }
    let interesting = match v {
        Verdict::AgreeMatch => ntoks_hint >= 2,
        Verdict::AgreeNoMatch => facts.steps > 3,
        _ => false,
    };
    if interesting && facts.feature_count() >= 2 {
        ctx.nontrivial(&(text, rule, input));
        if facts.skip_consumed { ctx.class("nt:skip-consumed"); }
        if facts.modifier_on_path { ctx.class("nt:modifier"); }
        if facts.predicate { ctx.class("nt:predicate"); }
        if facts.rep_ge2 { ctx.class("nt:rep>=2"); }
        if facts.stack_op { ctx.class("nt:stack-op"); }
        if facts.silent_rule { ctx.class("nt:silent"); }
        ctx.sample(|| case_json(text, rule, input));
    }
}

pub struct Prepared {
    pub text: String,
    pub cg: CGrammar,
    pub vm: Vm,
    pub rules: Vec<String>,
    pub compiled_ast: Vec<pest_meta::ast::Rule>,
}

/// Print, compile, lower. None = rejected by pest_meta (counted by the caller).
pub fn prepare(ctx: &mut Ctx, g: &Gram) -> Result<Option<Prepared>, Fail> {
    let text = print_grammar(g);
    ctx.class("grammars:generated");
    let c = match compile(&text) {
        Ok(c) => c,
        Err(e) if e.starts_with("PANIC") => {
            return Err(Fail::new("front-end-panic", format!("grammar:\n{text}front-end panicked: {e}"), case_json(&text, "", "")));
        }
        Err(e) => {
            ctx.class("grammars:rejected");
            if ctx.classes.get("grammars:rejected").copied().unwrap_or(0) <= 3 {
                ctx.notes.push(format!("rejected: {} :: {}", text.replace('\n', " ; "), e));
            }
            return Ok(None);
        }
    };
    ctx.class("grammars:accepted");
    let cg = match refsem::grammar_from_ast(&c.ast, EXTRAS) {
        Ok(cg) => cg,
        Err(_) => {
            ctx.class("grammars:no-documented-meaning");
            return Ok(None);
        }
    };
    let rules = cg.order.clone();
    Ok(Some(Prepared { text, cg, vm: Vm::new(c.opt), rules, compiled_ast: c.ast }))
}

fn grammar_classes(ctx: &mut Ctx, g: &Gram) {
    if g.has("WHITESPACE") { ctx.class("g:whitespace"); }
    if g.has("COMMENT") { ctx.class("g:comment"); }
    if uses_stack(g) { ctx.class("g:stack-ops"); }
    if g.rules.iter().any(|r| SHADOW_NAMES.contains(&r.name.as_str())) { ctx.class("g:shadowed-builtin"); }
}

pub fn check_case(ctx: &mut Ctx, g: &Gram, specs: &[InputSpec]) -> Result<(), Fail> {
    let t0 = std::time::Instant::now();
    let prep = prepare(ctx, g)?;
    if std::env::var_os("VERIF_DEBUG_SLOW").is_some() && t0.elapsed().as_millis() > 100 {
        eprintln!("SLOW prepare {:?}: {}", t0.elapsed(), print_grammar(g));
    }
    let Some(p) = prep else { return Ok(()) };
    if lister_touches(&p.compiled_ast) {
        ctx.excluded += 1;
        ctx.class("grammars:set-aside-lister");
        return Ok(());
    }
    grammar_classes(ctx, g);
    let alpha = alphabet(&p.cg);
    for rule in &p.rules {
        for spec in specs {
            let input = realise(&p.cg, rule, spec, &alpha);
            ctx.inflight(&case_json(&p.text, rule, &input));
            let (v, facts) = compare_one(&p.text, &p.cg, &p.vm, rule, &input, "C01")?;
            record(ctx, &p.text, rule, &input, v, &facts, if v == Verdict::AgreeMatch { 2 } else { 0 });
        }
    }
    Ok(())
}

fn check_exhaustive(ctx: &mut Ctx, g: &Gram, k: usize) -> Result<(), Fail> {
    let Some(p) = prepare(ctx, g)? else { return Ok(()) };
    if lister_touches(&p.compiled_ast) {
        ctx.excluded += 1;
        ctx.class("grammars:set-aside-lister");
        return Ok(());
    }
    let mut alpha = alphabet(&p.cg);
    alpha.truncate(5);
    let inputs = enumerate(&alpha, k);
    ctx.class("exhaustive-grammars");
    for rule in &p.rules {
        for input in &inputs {
            ctx.inflight(&case_json(&p.text, rule, input));
            let (v, facts) = compare_one(&p.text, &p.cg, &p.vm, rule, input, "C01")?;
            record(ctx, &p.text, rule, input, v, &facts, if v == Verdict::AgreeMatch { 2 } else { 0 });
        }
    }
    Ok(())
}

pub fn run(ctx: &mut Ctx) {
    let cfg = GenCfg::standard(EXTRAS);
    let n_gram = ctx.share(ctx.tier.pick(80_000, 2_000_000));
    let strat = (grammar_strategy(cfg.clone()), proptest::collection::vec(spec_strategy(), 25));
    ctx.run_prop(n_gram, 1, strat, |ctx, (g, specs)| check_case(ctx, g, specs));
    // stack-heavy stream: nested snapshots, pops across snapshot lines, failing alternatives after pops
    let n_stack = ctx.share(ctx.tier.pick(40_000, 1_000_000));
    let strat = (proptest::strategy::Union::new(vec![stack_heavy_grammar(), stack_heavy_grammar(), stack_loop_grammar()]), proptest::collection::vec(spec_strategy(), 16));
    ctx.run_prop(n_stack, 3, strat, |ctx, (g, specs)| {
        ctx.class("stream:stack-heavy");
        check_case(ctx, g, specs)
    });
    // terminal-heavy stream: adjacent literals, insensitive non-ASCII literals, skipper shapes over related needles
    let n_term = ctx.share(ctx.tier.pick(30_000, 800_000));
    let strat = (terminal_heavy_grammar(), proptest::collection::vec(spec_strategy(), 16));
    ctx.run_prop(n_term, 4, strat, |ctx, (g, specs)| {
        ctx.class("stream:terminal-heavy");
        check_case(ctx, g, specs)
    });
    // exhaustive block: all strings <= k over (up to 5 symbols of) the grammar's alphabet
    let n_ex = ctx.share(ctx.tier.pick(4_000, 60_000));
    let k = ctx.tier.pick(3, 4);
    ctx.run_prop(n_ex, 2, grammar_strategy(cfg), move |ctx, g| check_exhaustive(ctx, g, k));
}

pub fn replay(case: &Value) -> Result<(), Fail> {
    let text = case["grammar"].as_str().expect("grammar");
    let rule = case["rule"].as_str().expect("rule");
    let input = case["input"].as_str().expect("input");
    let c = match compile(text) {
        Ok(c) => c,
        Err(e) if e.starts_with("PANIC") => return Err(Fail::new("front-end-panic", e, case.clone())),
        Err(_) => return Ok(()),
    };
    let Ok(cg) = refsem::grammar_from_ast(&c.ast, EXTRAS) else { return Ok(()) };
    let vm = Vm::new(c.opt);
    compare_one(text, &cg, &vm, rule, input, "C01").map(|_| ())
}

pub const DEF: CheckDef = CheckDef {
    id: "C01",
    rule: "proptest-generated grammars (1-5 rules + optional WHITESPACE/COMMENT of every modifier; all operators, bounded repetitions, predicates, built-ins, stack ops, shadowed built-in names; repaired by construction so that the validator accepts them) x EVERY defined rule as start rule x 25 inputs per rule (derivation sampler, edited derivations, random strings over the grammar's alphabet), plus an exhaustive block (all strings of length <= 3 (quick) / 4 (thorough) over the grammar's alphabet). Oracle: the independent reference evaluator (harness/pv/src/refsem.rs, written from the prose) on the UNOPTIMIZED AST versus parse_and_optimize + pest_vm::Vm: same accept/reject and identical token stream. Non-trivial = (match with >= 1 pair, or a failure after > 3 evaluation steps) AND >= 2 of {implicit skip consumed text, @/$/! modifier on the path, predicate, repetition >= 2 iterations, stack op executed, silent rule}; distinct = distinct (grammar, rule, input). Run once per feature configuration (default, grammar-extras); counts are summed.",
    assumptions: &[
        "cases the prose leaves undefined (POP/PEEK on an empty stack) or on which the model proves divergence are skipped and counted (parse:skipped-*)",
        "grammars rewritten by the optimizer's `list` pass are set aside (excluded_by_construction): that rewrite is C05's open finding D7",
        "Unicode property built-ins are evaluated with pest::unicode::by_name in the model (checked separately by C16)",
        "node tags are not compared here",
    ],
    floor: |t| t.pick(50_000, 500_000),
    shards: |_| 16,
    run,
    replay,
    journal: true,
    pre: None,
};
