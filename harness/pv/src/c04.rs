//! C04 — the token stream is a well-formed tree and every Pairs view agrees with it.
//! (a) trees built by construction and realised through PairsBuilder, (b) Pairs returned by VM
//! parses of generated grammars; both observed through every view and through generated scripts
//! of next/next_back/len/peek/... on Pairs, FlatPairs and Tokens, against a plain tree + VecDeque
//! model.

use crate::c01::prepare;
use crate::fw::*;
use crate::gram::*;
use crate::inputs::*;
use crate::refsem::{self, Outcome};
use pest::iterators::{Pair, Pairs, PairsBuilder};
use pest::{RuleType, Token};
use proptest::prelude::*;
use serde_json::{json, Value};
use std::collections::VecDeque;

#[derive(Clone, Debug, PartialEq, Eq, Hash)]
pub struct Node {
    pub rule: String, // Debug text of the rule
    pub start: usize,
    pub end: usize,
    pub tag: Option<String>,
    pub children: Vec<Node>,
}

fn preorder<'a>(nodes: &'a [Node], out: &mut Vec<&'a Node>) {
    for n in nodes {
        out.push(n);
        preorder(&n.children, out);
    }
}
fn depth(nodes: &[Node]) -> usize {
    nodes.iter().map(|n| 1 + depth(&n.children)).max().unwrap_or(0)
}
fn tokens_of(nodes: &[Node], out: &mut Vec<(bool, String, usize)>) {
    for n in nodes {
        out.push((true, n.rule.clone(), n.start));
        tokens_of(&n.children, out);
        out.push((false, n.rule.clone(), n.end));
    }
}

fn o_line_col(s: &str, off: usize) -> (usize, usize) {
    let before = &s[..off];
    let line = 1 + before.bytes().filter(|b| *b == b'\n').count();
    let last = before.rfind('\n').map(|i| i + 1).unwrap_or(0);
    (line, 1 + before[last..].chars().count())
}

#[derive(Clone, Copy, Debug, PartialEq, Eq, Hash)]
pub enum Step {
    Next,
    NextBack,
    Len,
    SizeHint,
    Peek,
    AsStr,
    Concat,
    CloneCollect,
}

fn step_strategy() -> impl Strategy<Value = Step> {
    prop_oneof![
        4 => Just(Step::Next),
        4 => Just(Step::NextBack),
        3 => Just(Step::Len),
        1 => Just(Step::SizeHint),
        1 => Just(Step::Peek),
        1 => Just(Step::AsStr),
        1 => Just(Step::Concat),
        1 => Just(Step::CloneCollect),
    ]
}

struct F {
    sig: String,
    msg: String,
}
fn f(sig: &str, msg: String) -> F {
    F { sig: format!("c04:{sig}"), msg }
}

fn rule_s<R: RuleType>(r: R) -> String {
    format!("{r:?}")
}

/// Stream invariants of the statement; builds the tree from the tokens.
fn tree_from_tokens<R: RuleType>(input: &str, pairs: &Pairs<'_, R>) -> Result<Vec<Node>, F> {
    let toks: Vec<Token<'_, R>> = pairs.clone().tokens().collect();
    let mut stack: Vec<Node> = vec![];
    let mut roots: Vec<Node> = vec![];
    let mut last = 0usize;
    for (i, t) in toks.iter().enumerate() {
        let (is_start, rule, pos) = match t {
            Token::Start { rule, pos } => (true, rule_s(*rule), pos.pos()),
            Token::End { rule, pos } => (false, rule_s(*rule), pos.pos()),
        };
        if pos > input.len() || !input.is_char_boundary(pos) {
            return Err(f("stream:position", format!("token {i} at {pos}: not a char boundary inside the input")));
        }
        if pos < last {
            return Err(f("stream:order", format!("token {i} at {pos} after a token at {last}: positions decrease")));
        }
        last = pos;
        if is_start {
            stack.push(Node { rule, start: pos, end: pos, tag: None, children: vec![] });
        } else {
            let Some(mut n) = stack.pop() else {
                return Err(f("stream:balance", format!("End token {i} without a Start")));
            };
            if n.rule != rule {
                return Err(f("stream:rules", format!("End token {i} of rule {rule} closes a Start of rule {}", n.rule)));
            }
            n.end = pos;
            match stack.last_mut() {
                Some(p) => p.children.push(n),
                None => roots.push(n),
            }
        }
    }
    if !stack.is_empty() {
        return Err(f("stream:balance", "Start tokens left open".into()));
    }
    Ok(roots)
}

fn expect_json(input: &str, n: &Node) -> Value {
    if n.children.is_empty() {
        json!({"pos": [n.start, n.end], "rule": n.rule, "inner": &input[n.start..n.end]})
    } else {
        json!({"pos": [n.start, n.end], "rule": n.rule, "inner": {"pos": [n.children[0].start, n.children.last().unwrap().end], "pairs": n.children.iter().map(|c| expect_json(input, c)).collect::<Vec<_>>()}})
    }
}
fn expect_alt(n: &Node) -> String {
    if n.children.is_empty() {
        format!("{}({}, {})", n.rule, n.start, n.end)
    } else {
        format!("{}({}, {}, [{}])", n.rule, n.start, n.end, n.children.iter().map(expect_alt).collect::<Vec<_>>().join(", "))
    }
}

/// Every per-pair observation against the node (recursively). `tags_known` is false for Pairs
/// from parses (tags are then read from the pair and only cross-checked between views).
fn check_pair<R: RuleType>(input: &str, p: &Pair<'_, R>, n: &Node, tags_known: bool) -> Result<(), F> {
    let sp = p.as_span();
    if rule_s(p.as_rule()) != n.rule || sp.start() != n.start || sp.end() != n.end {
        return Err(f("pair:rule-span", format!("pair {}({},{}) vs tree {}({},{})", rule_s(p.as_rule()), sp.start(), sp.end(), n.rule, n.start, n.end)));
    }
    if p.as_str() != &input[n.start..n.end] || p.clone().into_span().as_str() != p.as_str() || p.get_input() != input {
        return Err(f("pair:as_str", format!("as_str {:?} vs input slice {:?}", p.as_str(), &input[n.start..n.end])));
    }
    if tags_known && p.as_node_tag().map(|s| s.to_string()) != n.tag {
        return Err(f("pair:tag", format!("node tag {:?} vs tree {:?} on {}({},{})", p.as_node_tag(), n.tag, n.rule, n.start, n.end)));
    }
    let lc = p.line_col();
    if lc != o_line_col(input, n.start) {
        return Err(f("pair:line_col", format!("line_col {:?} vs {:?} at offset {}", lc, o_line_col(input, n.start), n.start)));
    }
    let mut want = vec![];
    tokens_of(std::slice::from_ref(n), &mut want);
    let got: Vec<(bool, String, usize)> = p
        .clone()
        .tokens()
        .map(|t| match t {
            Token::Start { rule, pos } => (true, rule_s(rule), pos.pos()),
            Token::End { rule, pos } => (false, rule_s(rule), pos.pos()),
        })
        .collect();
    if got != want {
        return Err(f("pair:tokens", format!("pair.tokens() {got:?} vs tree {want:?}")));
    }
    if format!("{p}") != p.as_str() {
        return Err(f("pair:display", format!("Display {:?} vs as_str {:?}", format!("{p}"), p.as_str())));
    }
    if format!("{p:#}") != expect_alt(n) {
        return Err(f("pair:display-alt", format!("alternate Display {:?} vs {:?}", format!("{p:#}"), expect_alt(n))));
    }
    let dbg = format!("{p:?}");
    if !dbg.contains("Pair") || !dbg.contains(&n.rule) {
        return Err(f("pair:debug", format!("Debug output {dbg:?} lacks the rule")));
    }
    // serde_json refuses to parse documents nested deeper than 128 levels; a pair contributes two
    // levels, so very deep trees are only rendered (must not panic), not parsed back
    if depth(std::slice::from_ref(n)) <= 40 {
        let js: Value = serde_json::from_str(&p.to_json()).map_err(|e| f("pair:json", format!("to_json is not JSON: {e}")))?;
        if js != expect_json(input, n) {
            return Err(f("pair:json", format!("to_json {js} vs {}", expect_json(input, n))));
        }
    } else {
        let _ = p.to_json();
    }
    // into_inner
    let inner = p.clone().into_inner();
    check_pairs_static(input, &inner, &n.children, tags_known)?;
    Ok(())
}

/// Observations that do not consume: the whole Pairs against the sibling list.
fn check_pairs_static<R: RuleType>(input: &str, ps: &Pairs<'_, R>, nodes: &[Node], tags_known: bool) -> Result<(), F> {
    if ps.len() != nodes.len() || ps.is_empty() != nodes.is_empty() || ps.size_hint() != (nodes.len(), Some(nodes.len())) {
        return Err(f("pairs:len", format!("len {} / is_empty {} / size_hint {:?} vs {} pairs", ps.len(), ps.is_empty(), ps.size_hint(), nodes.len())));
    }
    let want_str = if nodes.is_empty() { "" } else { &input[nodes[0].start..nodes.last().unwrap().end] };
    if ps.as_str() != want_str {
        return Err(f("pairs:as_str", format!("as_str {:?} vs {:?}", ps.as_str(), want_str)));
    }
    let want_concat: String = nodes.iter().map(|n| &input[n.start..n.end]).collect();
    if ps.concat() != want_concat {
        return Err(f("pairs:concat", format!("concat {:?} vs {:?}", ps.concat(), want_concat)));
    }
    match (ps.peek(), nodes.first()) {
        (None, None) => {}
        (Some(p), Some(n)) if rule_s(p.as_rule()) == n.rule && p.as_span().start() == n.start && p.as_span().end() == n.end => {}
        (a, b) => return Err(f("pairs:peek", format!("peek {:?} vs first node {:?}", a.map(|p| format!("{p:#}")), b.map(expect_alt)))),
    }
    let collected: Vec<Pair<'_, R>> = ps.clone().collect();
    if collected.len() != nodes.len() {
        return Err(f("pairs:iter", format!("forward iteration yields {} pairs, tree has {}", collected.len(), nodes.len())));
    }
    for (p, n) in collected.iter().zip(nodes) {
        check_pair(input, p, n, tags_known)?;
    }
    let disp = format!("{ps}");
    let want_disp = format!("[{}]", nodes.iter().map(|n| input[n.start..n.end].to_string()).collect::<Vec<_>>().join(", "));
    if disp != want_disp {
        return Err(f("pairs:display", format!("Display {disp:?} vs {want_disp:?}")));
    }
    let alt = format!("{ps:#}");
    let want_alt = format!("[{}]", nodes.iter().map(expect_alt).collect::<Vec<_>>().join(", "));
    if alt != want_alt {
        return Err(f("pairs:display-alt", format!("alternate Display {alt:?} vs {want_alt:?}")));
    }
    let _ = format!("{ps:?}");
    if depth(nodes) <= 40 {
        let js: Value = serde_json::from_str(&ps.to_json()).map_err(|e| f("pairs:json", format!("to_json is not JSON: {e}")))?;
        let want_pairs: Vec<Value> = nodes.iter().map(|n| expect_json(input, n)).collect();
        if js["pairs"] != Value::Array(want_pairs.clone()) {
            return Err(f("pairs:json", format!("to_json pairs {} vs {}", js["pairs"], Value::Array(want_pairs))));
        }
        if !nodes.is_empty() && js["pos"] != json!([nodes[0].start, nodes.last().unwrap().end]) {
            return Err(f("pairs:json", format!("to_json pos {} vs [{}, {}]", js["pos"], nodes[0].start, nodes.last().unwrap().end)));
        }
    } else {
        let _ = ps.to_json();
    }
    // flatten / tags
    let mut pre = vec![];
    preorder(nodes, &mut pre);
    let flat: Vec<Pair<'_, R>> = ps.clone().flatten().collect();
    if flat.len() != pre.len() || ps.clone().flatten().len() != pre.len() {
        return Err(f("flat:len", format!("flatten() yields {} pairs (len() {}), the tree has {}", flat.len(), ps.clone().flatten().len(), pre.len())));
    }
    for (p, n) in flat.iter().zip(&pre) {
        if rule_s(p.as_rule()) != n.rule || p.as_span().start() != n.start || p.as_span().end() != n.end {
            return Err(f("flat:order", format!("flatten() pair {:#} vs pre-order node {}", p, expect_alt(n))));
        }
    }
    // tag look-ups agree with the pre-order filter over whatever tags the pairs carry
    let tags: std::collections::BTreeSet<String> = flat.iter().filter_map(|p| p.as_node_tag().map(|s| s.to_string())).collect();
    for t in tags.iter().map(|s| s.as_str()).chain(std::iter::once("no-such-tag")) {
        let want: Vec<(usize, usize)> = flat.iter().filter(|p| p.as_node_tag() == Some(t)).map(|p| (p.as_span().start(), p.as_span().end())).collect();
        // `find_tagged` borrows the tag for the Pairs' lifetime: leak a copy (tiny, test only)
        let tl: &'static str = Box::leak(t.to_string().into_boxed_str());
        let got: Vec<(usize, usize)> = ps.clone().find_tagged(tl).map(|p| (p.as_span().start(), p.as_span().end())).collect();
        if got != want {
            return Err(f("pairs:find_tagged", format!("find_tagged({t}) {got:?} vs {want:?}")));
        }
        let first = ps.find_first_tagged(tl).map(|p| (p.as_span().start(), p.as_span().end()));
        if first != want.first().copied() {
            return Err(f("pairs:find_first_tagged", format!("find_first_tagged({t}) {first:?} vs {:?}", want.first())));
        }
    }
    Ok(())
}

/// Script over Pairs (deque of siblings), FlatPairs (deque of pre-order nodes), Tokens.
fn run_script<R: RuleType>(input: &str, ps: &Pairs<'_, R>, nodes: &[Node], script: &[Step]) -> Result<(bool, bool), F> {
    let mut interleaved = (false, false, false); // (saw next, saw next_back, len after partial)
    // ---- Pairs
    {
        let mut it = ps.clone();
        let mut model: VecDeque<&Node> = nodes.iter().collect();
        let mut partial = false;
        for (i, st) in script.iter().enumerate() {
            let same = |p: Option<Pair<'_, R>>, n: Option<&Node>| match (p, n) {
                (None, None) => true,
                (Some(p), Some(n)) => rule_s(p.as_rule()) == n.rule && p.as_span().start() == n.start && p.as_span().end() == n.end,
                _ => false,
            };
            match st {
                Step::Next => {
                    interleaved.0 = true;
                    partial = true;
                    let got = it.next();
                    let want = model.pop_front();
                    if !same(got.clone(), want) {
                        return Err(f("pairs:next", format!("step {i}: next() {:?} vs {:?}", got.map(|p| format!("{p:#}")), want.map(expect_alt))));
                    }
                }
                Step::NextBack => {
                    interleaved.1 = true;
                    partial = true;
                    let got = it.next_back();
                    let want = model.pop_back();
                    if !same(got.clone(), want) {
                        return Err(f("pairs:next_back", format!("step {i}: next_back() {:?} vs {:?}", got.map(|p| format!("{p:#}")), want.map(expect_alt))));
                    }
                }
                Step::Len | Step::SizeHint => {
                    if partial {
                        interleaved.2 = true;
                    }
                    if it.len() != model.len() || it.size_hint() != (model.len(), Some(model.len())) || it.is_empty() != model.is_empty() {
                        return Err(f("pairs:len-after-iteration", format!("step {i}: len {} size_hint {:?} vs {} remaining", it.len(), it.size_hint(), model.len())));
                    }
                }
                Step::Peek => {
                    if !same(it.peek(), model.front().copied()) {
                        return Err(f("pairs:peek-after-iteration", format!("step {i}: peek vs {:?}", model.front().map(|n| expect_alt(n)))));
                    }
                }
                Step::AsStr => {
                    let want = match (model.front(), model.back()) {
                        (Some(a), Some(b)) => &input[a.start..b.end],
                        _ => "",
                    };
                    if it.as_str() != want {
                        return Err(f("pairs:as_str-after-iteration", format!("step {i}: as_str {:?} vs {:?}", it.as_str(), want)));
                    }
                }
                Step::Concat => {
                    let want: String = model.iter().map(|n| &input[n.start..n.end]).collect();
                    if it.concat() != want {
                        return Err(f("pairs:concat-after-iteration", format!("step {i}: concat {:?} vs {:?}", it.concat(), want)));
                    }
                }
                Step::CloneCollect => {
                    let got: Vec<(usize, usize)> = it.clone().map(|p| (p.as_span().start(), p.as_span().end())).collect();
                    let want: Vec<(usize, usize)> = model.iter().map(|n| (n.start, n.end)).collect();
                    let gotr: Vec<(usize, usize)> = it.clone().rev().map(|p| (p.as_span().start(), p.as_span().end())).collect();
                    let mut wantr = want.clone();
                    wantr.reverse();
                    if got != want || gotr != wantr {
                        return Err(f("pairs:clone-collect", format!("step {i}: remaining {got:?} (rev {gotr:?}) vs {want:?}")));
                    }
                }
            }
        }
    }
    // ---- FlatPairs
    {
        let mut pre = vec![];
        preorder(nodes, &mut pre);
        let mut it = ps.clone().flatten();
        let mut model: VecDeque<&Node> = pre.into_iter().collect();
        for (i, st) in script.iter().enumerate() {
            let same = |p: Option<Pair<'_, R>>, n: Option<&Node>| match (p, n) {
                (None, None) => true,
                (Some(p), Some(n)) => rule_s(p.as_rule()) == n.rule && p.as_span().start() == n.start && p.as_span().end() == n.end,
                _ => false,
            };
            match st {
                Step::Next => {
                    let got = it.next();
                    let want = model.pop_front();
                    if !same(got.clone(), want) {
                        return Err(f("flat:next", format!("step {i}: flatten().next() {:?} vs {:?}", got.map(|p| format!("{p:#}")), want.map(expect_alt))));
                    }
                }
                Step::NextBack => {
                    let got = it.next_back();
                    let want = model.pop_back();
                    if !same(got.clone(), want) {
                        return Err(f("flat:next_back", format!("step {i}: flatten().next_back() {:?} vs {:?}", got.map(|p| format!("{p:#}")), want.map(expect_alt))));
                    }
                }
                Step::Len | Step::SizeHint => {
                    if it.len() != model.len() || it.size_hint() != (model.len(), Some(model.len())) {
                        return Err(f("flat:len-after-iteration", format!("step {i}: FlatPairs len {} size_hint {:?} vs {} remaining", it.len(), it.size_hint(), model.len())));
                    }
                }
                Step::CloneCollect => {
                    let got: Vec<(usize, usize)> = it.clone().map(|p| (p.as_span().start(), p.as_span().end())).collect();
                    let want: Vec<(usize, usize)> = model.iter().map(|n| (n.start, n.end)).collect();
                    if got != want {
                        return Err(f("flat:clone-collect", format!("step {i}: remaining {got:?} vs {want:?}")));
                    }
                }
                _ => {}
            }
        }
    }
    // ---- Tokens
    {
        let mut want = vec![];
        tokens_of(nodes, &mut want);
        let mut it = ps.clone().tokens();
        let mut model: VecDeque<(bool, String, usize)> = want.into_iter().collect();
        let conv = |t: Token<'_, R>| match t {
            Token::Start { rule, pos } => (true, rule_s(rule), pos.pos()),
            Token::End { rule, pos } => (false, rule_s(rule), pos.pos()),
        };
        for (i, st) in script.iter().enumerate() {
            match st {
                Step::Next => {
                    let got = it.next().map(conv);
                    let want = model.pop_front();
                    if got != want {
                        return Err(f("tokens:next", format!("step {i}: tokens().next() {got:?} vs {want:?}")));
                    }
                }
                Step::NextBack => {
                    let got = it.next_back().map(conv);
                    let want = model.pop_back();
                    if got != want {
                        return Err(f("tokens:next_back", format!("step {i}: tokens().next_back() {got:?} vs {want:?}")));
                    }
                }
                Step::Len | Step::SizeHint => {
                    if it.len() != model.len() || it.size_hint() != (model.len(), Some(model.len())) {
                        return Err(f("tokens:len", format!("step {i}: Tokens len {} vs {}", it.len(), model.len())));
                    }
                }
                _ => {}
            }
        }
    }
    Ok((interleaved.0 && interleaved.1, interleaved.2))
}

fn check_all<R: RuleType>(input: &str, ps: &Pairs<'_, R>, nodes: &[Node], script: &[Step], tags_known: bool) -> Result<(bool, bool), F> {
    check_pairs_static(input, ps, nodes, tags_known)?;
    // Pairs::single on every top-level pair and on a nested one
    let mut cands: Vec<(Pair<'_, R>, &Node)> = ps.clone().zip(nodes.iter()).collect();
    if let Some((p, n)) = cands.first().cloned() {
        if let (Some(cp), Some(cn)) = (p.into_inner().next_back(), n.children.last()) {
            cands.push((cp, cn));
        }
    }
    for (p, n) in cands {
        let single = Pairs::single(p);
        check_pairs_static(input, &single, std::slice::from_ref(n), tags_known).map_err(|e| F { sig: format!("{}:via-single", e.sig), msg: format!("on Pairs::single({}): {}", expect_alt(n), e.msg) })?;
        run_script(input, &single, std::slice::from_ref(n), script).map_err(|e| F { sig: format!("{}:via-single", e.sig), msg: format!("on Pairs::single({}): {}", expect_alt(n), e.msg) })?;
    }
    run_script(input, ps, nodes, script)
}

// ------------------------------------------------------------------ (a) built trees
#[derive(Clone, Debug)]
pub struct Built {
    pub input: String,
    pub nodes: Vec<Node>,
}

const TEXT_ALPHA: [char; 8] = ['a', 'b', '\n', 'é', '€', '😀', ' ', '\r'];
const TAGS: [&str; 2] = ["t0", "t1"];

fn build_tree(ch: &mut Chooser<'_>, offs: &[usize], lo: usize, hi: usize, depth: usize, budget: &mut i32) -> Vec<Node> {
    let mut out = vec![];
    let n = ch.pick(if depth == 0 { 5 } else { 4 });
    let mut cursor = lo;
    for _ in 0..n {
        if *budget <= 0 {
            break;
        }
        *budget -= 1;
        let s = cursor + ch.pick(hi - cursor + 1);
        let e = s + ch.pick(hi - s + 1);
        let children = if depth < 5 && ch.pick(3) != 0 { build_tree(ch, offs, s, e, depth + 1, budget) } else { vec![] };
        let tag = if ch.pick(5) == 0 { Some(TAGS[ch.pick(2)].to_string()) } else { None };
        out.push(Node { rule: format!("{}", ch.pick(4)), start: offs[s], end: offs[e], tag, children });
        cursor = e;
    }
    out
}

fn realise<'i>(input: &'i str, nodes: &[Node]) -> Pairs<'i, u8> {
    fn add<'i>(mut b: PairsBuilder<'i, u8>, n: &Node) -> PairsBuilder<'i, u8> {
        let rule: u8 = n.rule.parse().unwrap();
        if n.children.is_empty() {
            b = b.rule(rule, n.start, n.end);
        } else {
            b = b.rule_with(rule, n.start, n.end, |mut inner| {
                for c in &n.children {
                    inner = add(inner, c);
                }
                inner
            });
        }
        if let Some(t) = &n.tag {
            let tl: &'static str = if t == "t0" { "t0" } else { "t1" };
            b = b.tag(tl);
        }
        b
    }
    let mut b = PairsBuilder::new(input);
    for n in nodes {
        b = add(b, n);
    }
    b.build()
}

fn built_strategy() -> impl Strategy<Value = Built> {
    (proptest::collection::vec(0..TEXT_ALPHA.len(), 0..12), proptest::collection::vec(any::<u16>(), 8..60)).prop_map(|(txt, choices)| {
        let input: String = txt.iter().map(|i| TEXT_ALPHA[*i]).collect();
        let mut offs: Vec<usize> = input.char_indices().map(|(i, _)| i).collect();
        offs.push(input.len());
        let mut ch = Chooser::new(&choices);
        let mut budget = 40;
        let nodes = build_tree(&mut ch, &offs, 0, offs.len() - 1, 0, &mut budget);
        Built { input, nodes }
    })
}

fn nodes_json(nodes: &[Node]) -> Value {
    Value::Array(nodes.iter().map(|n| json!({"rule": n.rule, "start": n.start, "end": n.end, "tag": n.tag, "children": nodes_json(&n.children)})).collect())
}
fn nodes_from_json(v: &Value) -> Vec<Node> {
    v.as_array()
        .map(|a| {
            a.iter()
                .map(|n| Node {
                    rule: n["rule"].as_str().unwrap().to_string(),
                    start: n["start"].as_u64().unwrap() as usize,
                    end: n["end"].as_u64().unwrap() as usize,
                    tag: n["tag"].as_str().map(|s| s.to_string()),
                    children: nodes_from_json(&n["children"]),
                })
                .collect()
        })
        .unwrap_or_default()
}
fn steps_json(s: &[Step]) -> Value {
    Value::Array(s.iter().map(|x| Value::String(format!("{x:?}"))).collect())
}
fn steps_from_json(v: &Value) -> Vec<Step> {
    v.as_array()
        .map(|a| {
            a.iter()
                .map(|x| match x.as_str().unwrap() {
                    "Next" => Step::Next,
                    "NextBack" => Step::NextBack,
                    "Len" => Step::Len,
                    "SizeHint" => Step::SizeHint,
                    "Peek" => Step::Peek,
                    "AsStr" => Step::AsStr,
                    "Concat" => Step::Concat,
                    _ => Step::CloneCollect,
                })
                .collect()
        })
        .unwrap_or_default()
}

fn check_built(ctx: &mut Ctx, b: &Built, script: &[Step]) -> Result<(), Fail> {
    ctx.eval();
    let case = json!({"kind": "built", "input": b.input, "tree": nodes_json(&b.nodes), "script": steps_json(script)});
    let r = catch(|| {
        let ps = realise(&b.input, &b.nodes);
        // the builder must produce exactly the tree it was given
        let t = tree_from_tokens(&b.input, &ps)?;
        let strip = |v: &[Node]| -> Vec<(String, usize, usize)> {
            let mut p = vec![];
            preorder(v, &mut p);
            p.iter().map(|n| (n.rule.clone(), n.start, n.end)).collect()
        };
        if strip(&t) != strip(&b.nodes) {
            return Err(f("builder:tree", format!("PairsBuilder produced {:?} for the tree {:?}", strip(&t), strip(&b.nodes))));
        }
        check_all(&b.input, &ps, &b.nodes, script, true)
    });
    match r {
        Err(p) => Err(Fail::new("c04:panic", format!("tree {} over {:?}, script {:?}: panic: {p}", nodes_json(&b.nodes), b.input, script), case)),
        Ok(Err(e)) => Err(Fail::new(e.sig, format!("tree {} over {:?}, script {:?}: {}", nodes_json(&b.nodes), b.input, script, e.msg), case)),
        Ok(Ok((inter, len_partial))) => {
            if depth(&b.nodes) >= 2 && (inter || len_partial) {
                ctx.nontrivial(&(&b.input, &b.nodes, script));
                ctx.class("nt:built");
                ctx.sample(|| case.clone());
            }
            if b.nodes.is_empty() {
                ctx.class("empty-pairs");
            }
            Ok(())
        }
    }
}

// ------------------------------------------------------------------ (b) parsed trees
fn check_parsed(ctx: &mut Ctx, g: &Gram, specs: &[InputSpec], script: &[Step]) -> Result<(), Fail> {
    let Some(p) = prepare(ctx, g)? else { return Ok(()) };
    let alpha = alphabet(&p.cg);
    for rule in &p.rules {
        for spec in specs {
            let input = crate::inputs::realise(&p.cg, rule, spec, &alpha);
            let (model, _) = refsem::run(&p.cg, rule, &input);
            if !matches!(model, Outcome::Match { .. }) {
                continue;
            }
            ctx.eval();
            let case = json!({"kind": "parsed", "config": crate::vmrun::config_name(), "grammar": p.text, "rule": rule, "input": input, "script": steps_json(script)});
            let r = catch(|| {
                let Ok(ps) = p.vm.parse(rule, &input) else { return Ok(None) };
                let nodes = tree_from_tokens(&input, &ps)?;
                // containment / sibling disjointness
                fn contained(n: &Node) -> bool {
                    let mut cur = n.start;
                    for c in &n.children {
                        if c.start < cur || c.end > n.end || c.start > c.end || !contained(c) {
                            return false;
                        }
                        cur = c.end;
                    }
                    n.start <= n.end
                }
                if !nodes.iter().all(contained) {
                    return Err(f("stream:containment", format!("a pair's span does not contain its children or siblings overlap: {}", nodes_json(&nodes))));
                }
                let d = depth(&nodes);
                check_all(&input, &ps, &nodes, script, false).map(|x| Some((x, d)))
            });
            match r {
                Err(pn) => return Err(Fail::new("c04:panic", format!("grammar:\n{}rule {rule} input {input:?} script {script:?}: panic: {pn}", p.text), case)),
                Ok(Err(e)) => return Err(Fail::new(e.sig, format!("grammar:\n{}rule {rule} input {input:?} script {script:?}: {}", p.text, e.msg), case)),
                Ok(Ok(None)) => {}
                Ok(Ok(Some(((inter, lenp), d)))) => {
                    ctx.class("parsed-trees");
                    if d >= 2 && (inter || lenp) {
                        ctx.nontrivial(&(p.text.as_str(), rule.as_str(), input.as_str(), script));
                        ctx.class("nt:parsed");
                    }
                }
            }
        }
    }
    Ok(())
}

pub fn run(ctx: &mut Ctx) {
    let n = ctx.share(ctx.tier.pick(150_000, 3_000_000));
    let script = || proptest::collection::vec(step_strategy(), 0..30);
    ctx.run_prop(n, 1, (built_strategy(), script()), |ctx, (b, s)| check_built(ctx, b, s));
    let m = ctx.share(ctx.tier.pick(6_000, 150_000));
    let strat = (grammar_strategy(GenCfg::standard(crate::vmrun::EXTRAS)), proptest::collection::vec(spec_strategy(), 5), script());
    ctx.run_prop(m, 2, strat, |ctx, (g, specs, s)| check_parsed(ctx, g, specs, s));
}

pub fn replay(case: &Value) -> Result<(), Fail> {
    let script = steps_from_json(&case["script"]);
    let mut ctx = Ctx::new("C04", Tier::Quick, 0, 0, 1);
    if case["kind"].as_str() == Some("built") {
        let b = Built { input: case["input"].as_str().unwrap().to_string(), nodes: nodes_from_json(&case["tree"]) };
        return check_built(&mut ctx, &b, &script);
    }
    // parsed: re-parse and re-check
    let text = case["grammar"].as_str().expect("grammar");
    let rule = case["rule"].as_str().expect("rule");
    let input = case["input"].as_str().expect("input");
    let Ok(c) = crate::vmrun::compile(text) else { return Ok(()) };
    let vm = pest_vm::Vm::new(c.opt);
    let r = catch(|| {
        let Ok(ps) = vm.parse(rule, input) else { return Ok(()) };
        let nodes = tree_from_tokens(input, &ps)?;
        check_all(input, &ps, &nodes, &script, false).map(|_| ())
    });
    match r {
        Err(p) => Err(Fail::new("c04:panic", p, case.clone())),
        Ok(Err(e)) => Err(Fail::new(e.sig, e.msg, case.clone())),
        Ok(Ok(())) => Ok(()),
    }
}

pub const DEF: CheckDef = CheckDef {
    id: "C04",
    rule: "(a) well-formed trees built by construction (<= 40 nodes, depth <= 6, children inside the parent, ordered, non-overlapping, zero-width pairs allowed, tags on ~20%) over strings with multi-byte characters, LF and CR, realised through PairsBuilder; (b) Pairs returned by VM parses of generated grammars/inputs (stream invariants checked on the tokens: balanced, matching rules, non-decreasing char-boundary positions, containment, sibling disjointness); x a generated observation script (<= 30 steps of next, next_back, len, size_hint, peek, as_str, concat, clone-and-collect incl. rev) run on Pairs, on flatten() and on tokens(), and again on Pairs::single of each top-level pair and of a nested pair. Oracle: the tree itself and a VecDeque model per iterator; per pair as_rule/as_str/as_span/into_span/get_input/as_node_tag/line_col (independent arithmetic)/tokens/into_inner, Display and alternate Display, Debug, to_json parsed back and compared structurally; per Pairs len/is_empty/size_hint/as_str/concat/peek/Display/JSON/flatten order/find_tagged/find_first_tagged. Non-trivial = tree depth >= 2 and the script interleaves next and next_back or observes len after a partial iteration; distinct = distinct (tree or parse, script).",
    assumptions: &["for an empty Pairs the JSON `pos` field is not asserted (only that `pairs` is [] and nothing panics)", "tags of parsed trees are cross-checked between views, not against a model (tag placement is undocumented)"],
    floor: |t| t.pick(20_000, 200_000),
    shards: |_| 16,
    run,
    replay,
    journal: false,
    pre: None,
};
