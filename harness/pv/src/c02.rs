//! C02 — generated parser and interpreting VM agree on every grammar and input. The REAL derive
//! path: batches of generated grammars are written into scratch crates (one module per grammar
//! with `#[derive(pest_derive::Parser)] #[grammar_inline = ...]`), compiled against /repo, and a
//! small runner compares `P::parse` with `Vm::parse` on every (rule, input) case.

use crate::c01::prepare;
use crate::fw::*;
use crate::gram::*;
use crate::inputs::*;
use crate::refsem::{self, Outcome};
use crate::vmrun::*;
use proptest::test_runner::{Config, RngAlgorithm, TestRng, TestRunner};
use serde_json::{json, Value};
use std::path::PathBuf;

pub const NBATCH: u64 = 16;

fn ws_dir() -> PathBuf {
    PathBuf::from(format!("{VERIF}/work/c02-{}", config_name()))
}

fn per_batch(tier: Tier) -> usize {
    tier.pick(70, 450)
}

fn has_distinct_impl_feature(g: &Gram) -> bool {
    fn w(e: &GE) -> bool {
        match e {
            GE::Builtin(_) | GE::Push(_) | GE::PushLit(_) | GE::PeekSlice(..) | GE::Tag(..) | GE::Insens(_) | GE::Range(..) => true,
            GE::Pos(x) | GE::Neg(x) | GE::Opt(x) | GE::Rep(x) | GE::RepOnce(x) | GE::RepExact(x, _) | GE::RepMin(x, _) | GE::RepMax(x, _) | GE::RepMinMax(x, _, _) => w(x),
            GE::Seq(a, b) | GE::Choice(a, b) => w(a) || w(b),
            _ => false,
        }
    }
    g.has("WHITESPACE")
        || g.has("COMMENT")
        || g.rules.iter().any(|r| SHADOW_NAMES.contains(&r.name.as_str()))
        || g.rules.iter().any(|r| matches!(r.ty, Ty::Atomic | Ty::Compound | Ty::NonAtomic))
        || g.rules.iter().any(|r| w(&r.expr))
}

/// Deterministic generation of batch `b`: grammars + the (rule, input) cases to run.
fn gen_batch(tier: Tier, seed: u64, b: u64) -> Vec<Value> {
    let mut ctx = Ctx::new("C02", tier, seed, b, NBATCH);
    let mut cfg = Config::default();
    cfg.failure_persistence = None;
    let mut runner = TestRunner::new_with_rng(cfg, TestRng::from_seed(RngAlgorithm::ChaCha, &ctx.stream_seed(7)));
    let gs = grammar_strategy(GenCfg::standard(EXTRAS));
    // every fourth grammar is terminal-heavy (literal concatenation, insensitive non-ASCII literals, the skipper's
    // fast path over related needle sets): the places where the generated code and the VM take different routes
    let ts = terminal_heavy_grammar();
    let sh = stack_heavy_grammar();
    let sl = stack_loop_grammar();
    let specs_s = proptest::collection::vec(spec_strategy(), 12);
    let mut out = vec![];
    let want = per_batch(tier);
    let mut tries = 0;
    while out.len() < want && tries < want * 4 {
        tries += 1;
        // ... one in eight is a stack loop (pushes, a stack-consuming body under + * ? {1,3}, a later stack read) and
        // one in eight a general stack-heavy grammar
        let g = if tries % 4 == 0 {
            gen_one(&mut runner, &ts)
        } else if tries % 8 == 1 {
            gen_one(&mut runner, &sl)
        } else if tries % 8 == 5 {
            gen_one(&mut runner, &sh)
        } else {
            gen_one(&mut runner, &gs)
        };
        let specs = gen_one(&mut runner, &specs_s);
        let Ok(Some(p)) = prepare(&mut ctx, &g) else { continue };
        let alpha = alphabet(&p.cg);
        let mut cases = vec![];
        let mut small: Vec<String> = vec![];
        if alpha.len() <= 2 {
            small = enumerate(&alpha, 5);
        } else if alpha.len() <= 4 {
            small = enumerate(&alpha, 2);
        }
        for rule in &p.rules {
            let mut ins: Vec<String> = specs.iter().map(|s| realise(&p.cg, rule, s, &alpha)).collect();
            ins.extend(small.iter().cloned());
            ins.sort();
            ins.dedup();
            for input in ins {
                let (m, facts) = refsem::run(&p.cg, rule, &input);
                let nt = match &m {
                    Outcome::Match { end, .. } => *end >= 1,
                    Outcome::NoMatch => facts.steps > 3,
                    _ => continue, // undefined / divergent cases would hang or panic both back-ends alike
                };
                cases.push(json!([rule, input, nt]));
            }
        }
        if cases.is_empty() {
            continue;
        }
        out.push(json!({"id": out.len(), "text": p.text, "rules": p.rules, "features": has_distinct_impl_feature(&g), "cases": cases}));
    }
    out
}

/// Tag-only mismatches are classified: a tag written directly on a repetition or optional
/// (`#t = e*`, `#t = e?`, `#t = e+`, `#t = e{..}`) is the open finding D12c (the two back-ends
/// place such tags differently and the placement is undocumented); anything else is new.
fn tag_signature(text: &str) -> String {
    #[cfg(feature = "extras")]
    {
        use pest_meta::ast::Expr;
        if let Ok(c) = compile(text) {
            let on_rep = c.ast.iter().any(|r| {
                r.expr.iter_top_down().any(|e| match e {
                    Expr::NodeTag(inner, _) => matches!(*inner, Expr::Rep(_) | Expr::Opt(_) | Expr::RepOnce(_) | Expr::RepExact(..) | Expr::RepMin(..) | Expr::RepMax(..) | Expr::RepMinMax(..)),
                    _ => false,
                })
            });
            if on_rep {
                return "c02:tags-only:tag-on-repetition-or-optional".into();
            }
        }
    }
    let _ = text;
    "c02:tags-only:other".into()
}

fn rust_str(s: &str) -> String {
    format!("{s:?}")
}

const RUNNER: &str = r##"
use pest::error::{ErrorVariant, InputLocation};
use pest::Parser;
use serde_json::{json, Value};

fn toks<R: pest::RuleType>(p: pest::iterators::Pairs<'_, R>) -> (Vec<(bool, String, usize)>, Vec<(String, usize, usize, Option<String>)>) {
    let tags = p.clone().flatten().map(|q| (format!("{:?}", q.as_rule()).trim_matches('"').to_string(), q.as_span().start(), q.as_span().end(), q.as_node_tag().map(|s| s.to_string()))).collect();
    let t = p.tokens().map(|t| match t {
        pest::Token::Start { rule, pos } => (true, format!("{rule:?}").trim_matches('"').to_string(), pos.pos()),
        pest::Token::End { rule, pos } => (false, format!("{rule:?}").trim_matches('"').to_string(), pos.pos()),
    }).collect();
    (t, tags)
}

fn err<R: pest::RuleType>(e: pest::error::Error<R>) -> Value {
    let pos = match e.location { InputLocation::Pos(p) => p, InputLocation::Span((a, _)) => a };
    match e.variant {
        ErrorVariant::ParsingError { positives, negatives } => {
            let mut p: Vec<String> = positives.iter().map(|r| format!("{r:?}").trim_matches('"').to_string()).collect();
            let mut n: Vec<String> = negatives.iter().map(|r| format!("{r:?}").trim_matches('"').to_string()).collect();
            p.sort(); n.sort();
            json!({"err": {"pos": pos, "expected": p, "unexpected": n}})
        }
        ErrorVariant::CustomError { message } => json!({"err": {"pos": pos, "custom": message}}),
    }
}

fn catch<T>(f: impl FnOnce() -> T) -> Result<T, String> {
    match std::panic::catch_unwind(std::panic::AssertUnwindSafe(f)) {
        Ok(v) => Ok(v),
        Err(e) => Err(e.downcast_ref::<String>().cloned().or_else(|| e.downcast_ref::<&str>().map(|s| s.to_string())).unwrap_or_else(|| "panic".into())),
    }
}

pub fn outcome<R: pest::RuleType>(r: Result<Result<pest::iterators::Pairs<'_, R>, pest::error::Error<R>>, String>) -> (Value, Value) {
    match r {
        Err(p) => (json!({"panic": p}), Value::Null),
        Ok(Ok(p)) => { let (t, tags) = toks(p); (json!({"ok": t}), json!(tags)) }
        Ok(Err(e)) => (err(e), Value::Null),
    }
}

macro_rules! run_grammar {
    ($m:ident, $g:expr, $out:expr) => {{
        let text = $g["text"].as_str().unwrap();
        let (_, rules) = pest_meta::parse_and_optimize(text).expect("grammar accepted at generation time");
        let vm = pest_vm::Vm::new(rules);
        for c in $g["cases"].as_array().unwrap() {
            let rule = c[0].as_str().unwrap();
            let input = c[1].as_str().unwrap();
            pest::set_call_limit(std::num::NonZeroUsize::new(4_000_000));
            let d = match $m::by_name(rule) {
                Some(rule_value__) => outcome(catch(|| <$m::P as Parser<$m::Rule>>::parse(rule_value__, input))),
                None => (json!({"panic": "rule missing from the generated enum"}), Value::Null),
            };
            let v = outcome(catch(|| vm.parse(rule, input)));
            pest::set_call_limit(None);
            $out.push(json!({"g": $g["id"], "rule": rule, "input": input, "nt": c[2], "same": d.0 == v.0, "same_tags": d.1 == v.1,
                "derived": if d.0 == v.0 && d.1 == v.1 { Value::Null } else { json!([d.0, d.1]) }, "vm": if d.0 == v.0 && d.1 == v.1 { Value::Null } else { json!([v.0, v.1]) },
                "ok": d.0.get("ok").is_some()}));
        }
    }};
}
"##;

fn write_batch_crate(dir: &PathBuf, b: u64, grammars: &[Value]) -> std::io::Result<()> {
    let cdir = dir.join(format!("b{b}"));
    std::fs::create_dir_all(cdir.join("src"))?;
    let extras = if EXTRAS { ", features = [\"grammar-extras\"]" } else { "" };
    std::fs::write(
        cdir.join("Cargo.toml"),
        format!(
            "[package]\nname = \"b{b}\"\nversion = \"0.0.0\"\nedition = \"2021\"\n\n[dependencies]\npest = {{ path = \"/repo/pest\" }}\npest_derive = {{ path = \"/repo/derive\"{extras} }}\npest_meta = {{ path = \"/repo/meta\"{extras} }}\npest_vm = {{ path = \"/repo/vm\"{extras} }}\nserde_json = \"1\"\n"
        ),
    )?;
    let mut src = String::from("#![allow(non_snake_case, non_camel_case_types, dead_code, unused_imports, clippy::all)]\n");
    src.push_str(RUNNER);
    for (i, g) in grammars.iter().enumerate() {
        let text = g["text"].as_str().unwrap();
        src.push_str(&format!("mod m{i} {{\n    #[derive(pest_derive::Parser)]\n    #[grammar_inline = {}]\n    pub struct P;\n    pub fn by_name(n: &str) -> Option<Rule> {{\n        match n {{\n", rust_str(text)));
        for r in g["rules"].as_array().unwrap() {
            let r = r.as_str().unwrap();
            src.push_str(&format!("            {} => Some(Rule::r#{}),\n", rust_str(r), r));
        }
        src.push_str("            _ => None,\n        }\n    }\n}\n");
    }
    src.push_str("fn main() {\n    std::panic::set_hook(Box::new(|_| {}));\n    let cases: Value = serde_json::from_str(&std::fs::read_to_string(std::env::args().nth(1).unwrap()).unwrap()).unwrap();\n    let h = std::thread::Builder::new().stack_size(1 << 30).spawn(move || {\n        let gs = cases.as_array().unwrap();\n        let mut out: Vec<Value> = vec![];\n");
    for i in 0..grammars.len() {
        src.push_str(&format!("        run_grammar!(m{i}, gs[{i}], out);\n"));
    }
    src.push_str("        println!(\"{}\", Value::Array(out));\n    }).unwrap();\n    h.join().unwrap();\n}\n");
    std::fs::write(cdir.join("src/main.rs"), src)?;
    std::fs::write(cdir.join("cases.json"), Value::Array(grammars.to_vec()).to_string())?;
    Ok(())
}

/// Driver-side step: generate all batch crates and compile them in one cargo invocation.
pub fn pre(tier: Tier, seed: u64) -> Result<(), String> {
    let dir = ws_dir();
    for b in 0..NBATCH {
        let _ = std::fs::remove_dir_all(dir.join(format!("b{b}")));
    }
    std::fs::create_dir_all(&dir).map_err(|e| e.to_string())?;
    let members: Vec<String> = (0..NBATCH).map(|b| format!("\"b{b}\"")).collect();
    std::fs::write(
        dir.join("Cargo.toml"),
        format!("[workspace]\nresolver = \"2\"\nmembers = [{}]\n\n[profile.dev]\nopt-level = 0\ndebug = false\nincremental = false\n\n[profile.dev.package.\"*\"]\nopt-level = 2\n", members.join(", ")),
    )
    .map_err(|e| e.to_string())?;
    std::fs::create_dir_all(dir.join(".cargo")).map_err(|e| e.to_string())?;
    std::fs::write(dir.join(".cargo/config.toml"), "[net]\noffline = true\n").map_err(|e| e.to_string())?;
    let _ = std::fs::copy(format!("{VERIF}/harness/Cargo.lock"), dir.join("Cargo.lock"));
    // generation in parallel threads (pure functions of (seed, batch))
    let handles: Vec<_> = (0..NBATCH)
        .map(|b| {
            let dir = dir.clone();
            std::thread::Builder::new()
                .stack_size(256 << 20)
                .spawn(move || {
                    let gs = gen_batch(tier, seed, b);
                    write_batch_crate(&dir, b, &gs).map_err(|e| e.to_string())
                })
                .unwrap()
        })
        .collect();
    for h in handles {
        h.join().map_err(|_| "batch generation panicked".to_string())??;
    }
    let mut pre_fails: Vec<Value> = vec![];
    for _attempt in 0..4 {
        let out = std::process::Command::new("cargo")
            .args(["build", "--offline", "-q", "--workspace"])
            .current_dir(&dir)
            .env_remove("RUSTFLAGS")
            .output()
            .map_err(|e| e.to_string())?;
        if out.status.success() {
            std::fs::write(dir.join("pre-fails.json"), Value::Array(pre_fails).to_string()).map_err(|e| e.to_string())?;
            return Ok(());
        }
        let err = String::from_utf8_lossy(&out.stderr).to_string();
        let _ = std::fs::write(dir.join("build.log"), err.as_bytes());
        // attribute errors located at a `#[derive(pest_derive::Parser)]` line to that module's grammar:
        // generated code rustc rejects for a grammar the front-end accepted is a finding of C02
        let mut bad: std::collections::BTreeSet<(u64, usize)> = Default::default();
        let mut first_msg: std::collections::BTreeMap<(u64, usize), String> = Default::default();
        let lines: Vec<&str> = err.lines().collect();
        for (li, l) in lines.iter().enumerate() {
            let Some(rest) = l.trim_start().strip_prefix("--> b") else { continue };
            let Some((bnum, tail)) = rest.split_once("/src/main.rs:") else { continue };
            let (Ok(b), Some(Ok(line))) = (bnum.parse::<u64>(), tail.split(':').next().map(|x| x.parse::<usize>())) else { continue };
            let src = std::fs::read_to_string(dir.join(format!("b{b}/src/main.rs"))).unwrap_or_default();
            let src_lines: Vec<&str> = src.lines().collect();
            if line == 0 || line > src_lines.len() || !src_lines[line - 1].contains("derive(pest_derive::Parser)") {
                continue;
            }
            // module index: the nearest preceding `mod mK {`
            let Some(k) = src_lines[..line].iter().rev().find_map(|x| x.strip_prefix("mod m").and_then(|y| y.strip_suffix(" {")).and_then(|y| y.parse::<usize>().ok())) else { continue };
            bad.insert((b, k));
            let msg = lines[..li].iter().rev().find(|x| x.starts_with("error")).map(|x| x.to_string()).unwrap_or_default();
            first_msg.entry((b, k)).or_insert(msg);
        }
        if bad.is_empty() {
            let first: String = err.lines().filter(|l| l.starts_with("error")).take(3).collect::<Vec<_>>().join(" | ");
            return Err(format!("the batch crates did not compile and the error is not attributable to a derive ({first}); full log: {}", dir.join("build.log").display()));
        }
        // record, drop the offending grammars, rebuild
        let mut by_batch: std::collections::BTreeMap<u64, Vec<usize>> = Default::default();
        for (b, k) in &bad {
            by_batch.entry(*b).or_default().push(*k);
        }
        for (b, ks) in by_batch {
            let cases_path = dir.join(format!("b{b}/cases.json"));
            let gs: Value = serde_json::from_str(&std::fs::read_to_string(&cases_path).unwrap_or_default()).unwrap_or(Value::Null);
            let arr = gs.as_array().cloned().unwrap_or_default();
            let mut keep = vec![];
            for (i, g) in arr.into_iter().enumerate() {
                if ks.contains(&i) {
                    pre_fails.push(json!({"grammar": g["text"], "error": first_msg.get(&(b, i)).cloned().unwrap_or_default()}));
                } else {
                    let mut g = g;
                    g["id"] = json!(keep.len());
                    keep.push(g);
                }
            }
            write_batch_crate(&dir, b, &keep).map_err(|e| e.to_string())?;
        }
    }
    Err("the batch crates still do not compile after removing the grammars whose derive failed".into())
}

pub fn run(ctx: &mut Ctx) {
    if ctx.shard == 0 {
        let pf: Value = serde_json::from_str(&std::fs::read_to_string(ws_dir().join("pre-fails.json")).unwrap_or_default()).unwrap_or(Value::Null);
        let mut smallest: Option<(usize, Fail)> = None;
        for f in pf.as_array().cloned().unwrap_or_default() {
            let text = f["grammar"].as_str().unwrap_or("").to_string();
            ctx.class("generated-code-does-not-compile");
            let fail = Fail::new(
                "c02:generated-code-does-not-compile",
                format!("pest_meta accepts this grammar and the VM runs it, but #[derive(Parser)] emits code rustc rejects ({}):\n{text}", f["error"].as_str().unwrap_or("")),
                json!({"config": config_name(), "grammar": text, "rule": "", "input": ""}),
            );
            if smallest.as_ref().map(|(n, _)| text.len() < *n).unwrap_or(true) {
                smallest = Some((text.len(), fail));
            }
        }
        if let Some((_, f)) = smallest {
            ctx.report(f);
        }
    }
    run_batch(ctx);
}

fn run_batch(ctx: &mut Ctx) {    let dir = ws_dir();
    let b = ctx.shard;
    let bin = dir.join(format!("target/debug/b{b}"));
    let cases = dir.join(format!("b{b}/cases.json"));
    let out = match std::process::Command::new(&bin).arg(&cases).output() {
        Ok(o) => o,
        Err(e) => {
            ctx.notes.push(format!("batch binary {} did not start: {e}", bin.display()));
            return;
        }
    };
    if !out.status.success() {
        ctx.report(Fail::new("c02:runner-crashed", format!("batch {b} runner ended with {:?} (a crash of a generated parser or of the VM)", out.status), json!({"batch": b})));
        return;
    }
    let results: Value = match serde_json::from_slice(&out.stdout) {
        Ok(v) => v,
        Err(e) => {
            ctx.notes.push(format!("batch {b}: unreadable output: {e}"));
            return;
        }
    };
    let grammars: Value = serde_json::from_str(&std::fs::read_to_string(&cases).unwrap_or_default()).unwrap_or(Value::Null);
    let mut best: Option<(usize, Fail)> = None;
    let mut best_tag: Option<(usize, Fail)> = None;
    let mut best_tag_other: Option<(usize, Fail)> = None;
    for r in results.as_array().cloned().unwrap_or_default() {
        ctx.eval();
        let g = &grammars[r["g"].as_u64().unwrap_or(0) as usize];
        let text = g["text"].as_str().unwrap_or("");
        let rule = r["rule"].as_str().unwrap_or("");
        let input = r["input"].as_str().unwrap_or("");
        ctx.class(if r["ok"].as_bool() == Some(true) { "parse:ok" } else { "parse:err" });
        if g["features"].as_bool() == Some(true) && r["nt"].as_bool() == Some(true) {
            ctx.nontrivial(&(text, rule, input));
            if ctx.nontrivial_count() % 5000 == 1 {
                ctx.sample(|| json!({"grammar": text, "rule": rule, "input": input}));
            }
        }
        let case = json!({"config": config_name(), "grammar": text, "rule": rule, "input": input});
        if r["same"].as_bool() != Some(true) {
            let kind = match (r["derived"][0].get("ok").is_some(), r["vm"][0].get("ok").is_some()) {
                (true, true) => "tokens",
                (true, false) | (false, true) => {
                    if r["derived"][0].get("panic").is_some() || r["vm"][0].get("panic").is_some() {
                        "panic"
                    } else {
                        "accept-reject"
                    }
                }
                (false, false) => {
                    if r["derived"][0].get("panic").is_some() || r["vm"][0].get("panic").is_some() {
                        "panic"
                    } else {
                        "error-report"
                    }
                }
            };
            let f = Fail::new(
                format!("c02:{kind}"),
                format!("grammar:\n{text}rule {rule} input {input:?}:\n generated parser: {}\n VM:               {}", r["derived"][0], r["vm"][0]),
                case,
            );
            let size = text.len() * 100 + input.len();
            if best.as_ref().map(|(s, _)| size < *s).unwrap_or(true) {
                best = Some((size, f));
            }
        } else if r["same_tags"].as_bool() != Some(true) {
            let f = Fail::new(
                tag_signature(text),
                format!("grammar:\n{text}rule {rule} input {input:?}: same tokens, different node tags:\n generated parser: {}\n VM:               {}", r["derived"][1], r["vm"][1]),
                case,
            );
            let size = text.len() * 100 + input.len();
            if f.sig.ends_with(":other") {
                if best_tag_other.as_ref().map(|(s, _)| size < *s).unwrap_or(true) {
                    best_tag_other = Some((size, f));
                }
            } else if best_tag.as_ref().map(|(s, _)| size < *s).unwrap_or(true) {
                best_tag = Some((size, f));
            }
        }
    }
    if let Some((_, f)) = best {
        ctx.report(f);
    }
    if let Some((_, f)) = best_tag {
        ctx.report(f);
    }
    if let Some((_, f)) = best_tag_other {
        ctx.report(f);
    }
}

/// Replay compiles a one-grammar batch crate and runs the single case.
pub fn replay(case: &Value) -> Result<(), Fail> {
    let text = case["grammar"].as_str().expect("grammar");
    let rule = case["rule"].as_str().expect("rule");
    let input = case["input"].as_str().expect("input");
    let Ok(c) = compile(text) else { return Ok(()) };
    let rules: Vec<String> = c.ast.iter().map(|r| r.name.clone()).collect();
    let g = json!({"id": 0, "text": text, "rules": rules, "features": true, "cases": [[rule, input, true]]});
    let dir = PathBuf::from(format!("{VERIF}/work/c02-replay-{}", config_name()));
    let _ = std::fs::remove_dir_all(dir.join("b0"));
    std::fs::create_dir_all(&dir).unwrap();
    std::fs::write(dir.join("Cargo.toml"), "[workspace]\nresolver = \"2\"\nmembers = [\"b0\"]\n\n[profile.dev]\nopt-level = 0\ndebug = false\nincremental = false\n\n[profile.dev.package.\"*\"]\nopt-level = 2\n").unwrap();
    std::fs::create_dir_all(dir.join(".cargo")).unwrap();
    std::fs::write(dir.join(".cargo/config.toml"), "[net]\noffline = true\n").unwrap();
    let _ = std::fs::copy(format!("{VERIF}/harness/Cargo.lock"), dir.join("Cargo.lock"));
    write_batch_crate(&dir, 0, &[g]).unwrap();
    let out = std::process::Command::new("cargo").args(["build", "--offline", "-q", "--workspace"]).current_dir(&dir).env_remove("RUSTFLAGS").output().unwrap();
    if !out.status.success() {
        return Err(Fail::new("c02:generated-code-does-not-compile", String::from_utf8_lossy(&out.stderr).lines().filter(|l| l.starts_with("error")).take(3).collect::<Vec<_>>().join(" | "), case.clone()));
    }
    let o = std::process::Command::new(dir.join("target/debug/b0")).arg(dir.join("b0/cases.json")).output().unwrap();
    if !o.status.success() {
        return Err(Fail::new("c02:runner-crashed", format!("{:?}", o.status), case.clone()));
    }
    let results: Value = serde_json::from_slice(&o.stdout).unwrap_or(Value::Null);
    let r = &results[0];
    if r["same"].as_bool() != Some(true) {
        let kind = match (r["derived"][0].get("ok").is_some(), r["vm"][0].get("ok").is_some()) {
            (true, true) => "tokens",
            (false, false) if r["derived"][0].get("panic").is_none() && r["vm"][0].get("panic").is_none() => "error-report",
            (a, b) if a != b && r["derived"][0].get("panic").is_none() && r["vm"][0].get("panic").is_none() => "accept-reject",
            _ => "panic",
        };
        return Err(Fail::new(format!("c02:{kind}"), format!("generated parser: {} / VM: {}", r["derived"][0], r["vm"][0]), case.clone()));
    }
    if r["same_tags"].as_bool() != Some(true) {
        return Err(Fail::new(tag_signature(text), format!("generated parser tags: {} / VM tags: {}", r["derived"][1], r["vm"][1]), case.clone()));
    }
    Ok(())
}

pub const DEF: CheckDef = CheckDef {
    id: "C02",
    rule: "C01's grammar generator (accepted grammars incl. WHITESPACE/COMMENT of every modifier, user rules named like non-keyword built-ins, stack ops, built-in and Unicode rules, tags/PUSH_LITERAL under grammar-extras). 16 batches x 70 (quick) / 450 (thorough) grammars are written into scratch crates with one `#[derive(pest_derive::Parser)] #[grammar_inline]` module per grammar, compiled against /repo, and run: every rule as start rule x 12 generated inputs (+ all strings of length <= 2 for alphabets <= 4 symbols), restricted to cases on which the reference evaluator terminates with a defined result. Oracle (differential): identical token stream on success; on failure identical position and identical expected / unexpected rule-name sets; identical panic-ness; node tags compared separately (signature c02:tags-only). Non-trivial = the grammar uses a construct the two back-ends implement separately (WHITESPACE/COMMENT, a modifier, a built-in, a range/insensitive string, a stack op, a shadowed name, a tag) and the case consumes >= 1 byte or fails after > 3 steps; distinct = distinct (grammar, rule, input). Both feature configurations.",
    assumptions: &[
        "grammars are not shrunk (that would need a recompile per step): the smallest failing (grammar, input) of each batch is reported",
        "a batch crate that fails to compile is reported as inconclusive with the rustc error (exit 2), not as a violation, because a harness defect cannot be told apart from a generator defect automatically",
    ],
    floor: |t| t.pick(5_000, 50_000),
    shards: |_| NBATCH,
    run,
    replay,
    journal: false,
    pre: Some(pre),
};
