//! C12 — a call limit never changes a result silently. For generated (grammar, rule, input)
//! cases: R_inf = result without a limit, N = number of counted calls (hook counter, used only to
//! size the sweep); for every L of the sweep R_L is R_inf or the "call limit reached" error, and a
//! result that is not that error is repeated by every larger L.

use crate::c01::{case_json, prepare};
use crate::fw::*;
use crate::gram::*;
use crate::inputs::*;
use crate::refsem::{self, Outcome};
use crate::vmrun::*;
use pest_vm::Vm;
use serde_json::{json, Value};

fn is_limit_err(o: &VmOut) -> bool {
    matches!(o, VmOut::Err { custom: Some(m), .. } if m == "call limit reached")
}

pub fn sweep_limits(n: usize) -> Vec<usize> {
    let mut v: Vec<usize> = vec![];
    if n <= 400 {
        v.extend(1..=n + 3);
    } else {
        v.extend(1..=64);
        for i in 0..60 {
            v.push(64 + (i * (n - 64)) / 60);
        }
        v.extend(n.saturating_sub(3)..=n + 3);
    }
    v.sort();
    v.dedup();
    v.retain(|x| *x >= 1);
    v
}

fn uses_absorbing_ops(g: &Gram) -> bool {
    fn w(e: &GE) -> bool {
        match e {
            GE::Opt(_) | GE::Rep(_) | GE::RepOnce(_) | GE::RepMin(..) | GE::RepMax(..) | GE::RepMinMax(..) | GE::Neg(_) => true,
            GE::Pos(x) | GE::RepExact(x, _) | GE::Push(x) | GE::Tag(x, _) => w(x),
            GE::Seq(a, b) | GE::Choice(a, b) => w(a) || w(b),
            _ => false,
        }
    }
    g.rules.iter().any(|r| w(&r.expr))
}

pub fn check_limits(text: &str, vm: &Vm, rule: &str, input: &str) -> Result<(usize, usize), Fail> {
    pest::set_call_limit(None);
    pest::verif::reset_calls();
    let r_inf = run_vm(vm, rule, input);
    let n = pest::verif::calls();
    if matches!(r_inf, VmOut::Panic(_)) {
        return Ok((n, 0)); // panics (empty-stack POP) are outside this property
    }
    let mut completed: Option<(usize, VmOut)> = None;
    let mut tripped = 0usize;
    for l in sweep_limits(n) {
        let r = run_vm_limited(vm, rule, input, l);
        if is_limit_err(&r) {
            tripped += 1;
            if let Some((l0, _)) = &completed {
                let mut case = case_json(text, rule, input);
                case["limit"] = json!(l);
                return Err(Fail::new(
                    "c12:not-monotone",
                    format!("grammar:\n{text}rule {rule} input {input:?}: completes under limit {l0} but reports `call limit reached` under the larger limit {l}"),
                    case,
                ));
            }
            continue;
        }
        if r != r_inf {
            let mut case = case_json(text, rule, input);
            case["limit"] = json!(l);
            return Err(Fail::new(
                "c12:silent-change",
                format!("grammar:\n{text}rule {rule} input {input:?}: with call limit {l} (the parse needs {n} calls) the result is {r:?}, which is neither the unlimited result {r_inf:?} nor the `call limit reached` error"),
                case,
            ));
        }
        if completed.is_none() {
            completed = Some((l, r));
        }
    }
    Ok((n, tripped))
}

pub fn check_case(ctx: &mut Ctx, g: &Gram, specs: &[InputSpec]) -> Result<(), Fail> {
    let Some(p) = prepare(ctx, g)? else { return Ok(()) };
    let alpha = alphabet(&p.cg);
    let absorbing = uses_absorbing_ops(g);
    for rule in &p.rules {
        for spec in specs {
            let input = realise(&p.cg, rule, spec, &alpha);
            let (model, facts) = refsem::run(&p.cg, rule, &input);
            if matches!(model, Outcome::Diverges(_) | Outcome::Undefined(_)) {
                ctx.class("skipped:undefined-or-diverges");
                continue;
            }
            if facts.steps > 4_000 {
                // exponential parses: the sweep would cost ~130 x N calls; bounded by work, not time
                ctx.class("skipped:parse-needs-too-many-calls-for-a-sweep");
                continue;
            }
            ctx.inflight(&case_json(&p.text, rule, &input));
            let (n, tripped) = check_limits(&p.text, &p.vm, rule, &input)?;
            ctx.evals_n(1 + sweep_limits(n).len() as u64);
            if tripped >= 2 && absorbing {
                ctx.nontrivial(&(p.text.as_str(), rule.as_str(), input.as_str()));
                ctx.class("nt:limit-trips-mid-parse-with-?*!-in-grammar");
                let (t, r, i) = (p.text.clone(), rule.clone(), input.clone());
                ctx.sample(|| json!({"grammar": t, "rule": r, "input": i, "calls_needed": n, "limits_swept": sweep_limits(n).len()}));
            }
            if n > 400 {
                ctx.class("sweep:sampled(N>400)");
            } else {
                ctx.class("sweep:all-limits");
            }
        }
    }
    Ok(())
}

pub fn run(ctx: &mut Ctx) {
    let cfg = GenCfg::standard(EXTRAS);
    let n = ctx.share(ctx.tier.pick(60_000, 600_000));
    let strat = (grammar_strategy(cfg), proptest::collection::vec(spec_strategy(), 4));
    ctx.run_prop(n, 1, strat, |ctx, (g, specs)| check_case(ctx, g, specs));
}

pub fn replay(case: &Value) -> Result<(), Fail> {
    let text = case["grammar"].as_str().expect("grammar");
    let rule = case["rule"].as_str().expect("rule");
    let input = case["input"].as_str().expect("input");
    let c = match compile(text) {
        Ok(c) => c,
        Err(_) => return Ok(()),
    };
    let vm = Vm::new(c.opt);
    check_limits(text, &vm, rule, input).map(|_| ())
}

pub const DEF: CheckDef = CheckDef {
    id: "C12",
    rule: "C01's grammar/input generators (accepted grammars, every rule as start rule, 4 inputs per rule; cases the model finds undefined/divergent are skipped) x a limit sweep: with N = calls counted by the hook for the unlimited parse, all L in 1..=N+3 when N <= 400, otherwise all L <= 64, 60 evenly spread values and N-3..=N+3. Oracle (metamorphic): R_L is either the unlimited result (same tokens / same error position and rule sets) or the error whose message is `call limit reached`; once some L completes, every larger L gives the same result. Non-trivial = the limit error occurs for >= 2 swept limits (the limit trips mid-parse) and the grammar contains an operator that absorbs failures (? * + {n,} {,n} {m,n} or !); distinct = distinct (grammar, rule, input). evaluations counts parses (1 + sweep size per case).",
    assumptions: &[
        "set_call_limit is process-global: each worker process is single-threaded and the limit is set only around the parse under test (the meta parser honours it too)",
        "parses that panic without a limit (POP/PEEK on an empty stack) are outside the property and skipped",
    ],
    floor: |t| t.pick(50_000, 500_000),
    shards: |_| 16,
    run,
    replay,
    journal: true,
    pre: None,
};
