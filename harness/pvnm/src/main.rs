#[path = "../../pv/src/fw.rs"]
#[allow(dead_code)]
mod fw;
#[path = "../../pv/src/c03.rs"]
mod c03;

use fw::*;

fn arg_after(args: &[String], flag: &str) -> Option<String> {
    args.iter().position(|a| a == flag).and_then(|i| args.get(i + 1).cloned())
}

fn main() {
    let args: Vec<String> = std::env::args().collect();
    let defs = vec![c03::DEF];
    let tier_of = |s: Option<String>| match s.as_deref() {
        Some("thorough") => Tier::Thorough,
        _ => Tier::Quick,
    };
    match args.get(1).map(|s| s.as_str()) {
        Some("check") => {
            let tier = tier_of(arg_after(&args, "--tier"));
            let seed = arg_after(&args, "--seed").and_then(|s| s.parse::<i64>().ok()).map(|v| v as u64).unwrap_or_else(env_seed);
            std::process::exit(driver_main(&defs[0], tier, seed, arg_after(&args, "--evidence")));
        }
        Some("worker") => {
            let tier = tier_of(arg_after(&args, "--tier"));
            let seed: u64 = arg_after(&args, "--seed").unwrap().parse().unwrap();
            let shard: u64 = arg_after(&args, "--shard").unwrap().parse().unwrap();
            let nshards: u64 = arg_after(&args, "--nshards").unwrap().parse().unwrap();
            let out = arg_after(&args, "--out").unwrap();
            worker_main(&defs[0], tier, seed, shard, nshards, std::path::Path::new(&out));
        }
        Some("replay") => {
            let raw = args.iter().any(|a| a == "--raw");
            std::process::exit(replay_main(&defs, args.get(2).expect("file"), raw));
        }
        _ => std::process::exit(2),
    }
}
