#![no_main]
//! C01 (+ C05, C12, C15 riders) in-target: the bytes are decoded into an abstract grammar (the harness's
//! `Gram`, made valid by the same `repair` pass the proptest strategy uses) and six input specs, so libFuzzer's
//! coverage feedback steers a structured generator; the oracles are the checks' own functions.
//! (proptest's pass-through RNG cannot be used for this: it pads with zeros, halves the data at every fork,
//! and rand 0.9's uniform sampler rejects a zero draw forever.)
#![allow(dead_code, unexpected_cfgs, unused_imports)]
#[path = "../../harness/pv/src/fw.rs"]
mod fw;
#[path = "../../harness/pv/src/gram.rs"]
mod gram;
#[path = "../../harness/pv/src/inputs.rs"]
mod inputs;
#[path = "../../harness/pv/src/refsem.rs"]
mod refsem;
#[path = "../../harness/pv/src/vmrun.rs"]
mod vmrun;
#[path = "../../harness/pv/src/c01.rs"]
mod c01;
#[path = "../../harness/pv/src/c05.rs"]
mod c05;
#[path = "../../harness/pv/src/c12.rs"]
mod c12;
#[path = "../../harness/pv/src/c15.rs"]
mod c15;

use gram::{GRule, Gram, Ty, GE};
use libfuzzer_sys::fuzz_target;

/// Byte cursor: every structural choice reads one byte (zero once exhausted), so small mutations of the
/// input are small mutations of the grammar and libFuzzer's coverage feedback has something to hold on to.
struct Cur<'a> {
    d: &'a [u8],
    i: usize,
}
impl Cur<'_> {
    fn byte(&mut self) -> u8 {
        let b = self.d.get(self.i).copied().unwrap_or(0);
        self.i += 1;
        b
    }
    fn below(&mut self, n: usize) -> usize {
        self.byte() as usize % n
    }
}

fn ty(c: &mut Cur) -> Ty {
    [Ty::Normal, Ty::Normal, Ty::Silent, Ty::Atomic, Ty::Compound, Ty::NonAtomic][c.below(6)]
}

fn leaf(c: &mut Cur) -> GE {
    match c.below(16) {
        0..=3 => GE::Str(gram::STRS[c.below(gram::STRS.len())].to_string()),
        4 => GE::Insens(gram::INSENS[c.below(gram::INSENS.len())].to_string()),
        5 => {
            let r = gram::RANGES[c.below(gram::RANGES.len())];
            GE::Range(r.0, r.1)
        }
        6 | 7 => GE::Builtin(gram::BUILTINS[c.below(gram::BUILTINS.len())]),
        8..=10 => GE::Ref(c.byte()),
        11 => GE::Named(["WHITESPACE", "COMMENT"][c.below(2)]),
        12 => {
            let n = 1 + c.below(4);
            let v: Vec<&str> = (0..n).map(|_| gram::STRS[c.below(gram::STRS.len())]).collect();
            gram::skipper_shape(&v)
        }
        13 | 14 => GE::Builtin(["POP", "PEEK", "DROP", "PEEK_ALL", "POP_ALL"][c.below(5)]),
        _ => {
            let mut b = |c: &mut Cur| match c.below(8) {
                0 => None,
                k => Some(k as i32 - 4),
            };
            let a = b(c);
            GE::PeekSlice(a, b(c))
        }
    }
}

fn expr(c: &mut Cur, depth: u32) -> GE {
    if depth == 0 {
        return leaf(c);
    }
    let d = depth - 1;
    let bx = |c: &mut Cur| Box::new(expr(c, d));
    match c.below(24) {
        0..=7 => leaf(c),
        8..=10 => {
            let a = bx(c);
            GE::Seq(a, bx(c))
        }
        11 | 12 => {
            let a = bx(c);
            GE::Choice(a, bx(c))
        }
        13 => GE::Opt(bx(c)),
        14 | 15 => GE::Rep(bx(c)),
        16 => GE::RepOnce(bx(c)),
        17 => {
            let a = bx(c);
            GE::RepExact(a, 1 + c.below(3) as u32)
        }
        18 => {
            let a = bx(c);
            GE::RepMin(a, c.below(4) as u32)
        }
        19 => {
            let a = bx(c);
            GE::RepMax(a, 1 + c.below(3) as u32)
        }
        20 => {
            let a = bx(c);
            let m = c.below(4) as u32;
            GE::RepMinMax(a, m, (m + c.below(3) as u32).max(1))
        }
        21 => GE::Pos(bx(c)),
        22 => GE::Neg(bx(c)),
        _ => GE::Push(bx(c)),
    }
}

fn drop_named(hw: bool, hc: bool, e: &mut GE) {
    match e {
        GE::Named(n) => {
            if (*n == "WHITESPACE" && !hw) || (*n == "COMMENT" && !hc) {
                *e = GE::Str(" ".into());
            }
        }
        GE::Pos(x) | GE::Neg(x) | GE::Opt(x) | GE::Rep(x) | GE::RepOnce(x) | GE::RepExact(x, _) | GE::RepMin(x, _) | GE::RepMax(x, _) | GE::RepMinMax(x, _, _) | GE::Push(x) | GE::Tag(x, _) => {
            drop_named(hw, hc, x)
        }
        GE::Seq(a, b) | GE::Choice(a, b) => {
            drop_named(hw, hc, a);
            drop_named(hw, hc, b);
        }
        _ => {}
    }
}

/// (grammar, input specs) decoded from the bytes; the same repair pass as the proptest strategy makes it valid.
fn decode(data: &[u8]) -> (Gram, Vec<inputs::InputSpec>) {
    let mut c = Cur { d: data, i: 0 };
    let head = c.byte();
    let nrules = 1 + (head as usize & 3).min(4);
    let mut g = Gram { rules: vec![] };
    for i in 0..nrules {
        let t = ty(&mut c);
        g.rules.push(GRule { name: format!("r{i}"), ty: t, expr: expr(&mut c, 4) });
    }
    if head & 4 != 0 {
        let t = ty(&mut c);
        let body = match c.below(4) {
            0 | 1 => GE::Str(" ".into()),
            2 => GE::Choice(Box::new(GE::Str(" ".into())), Box::new(GE::Str("\n".into()))),
            _ => GE::Builtin("NEWLINE"),
        };
        g.rules.push(GRule { name: "WHITESPACE".into(), ty: t, expr: body });
    }
    if head & 8 != 0 {
        let t = ty(&mut c);
        let body = match c.below(2) {
            0 => GE::Str("%".into()),
            _ => GE::Seq(Box::new(GE::Str("%".into())), Box::new(GE::Rep(Box::new(GE::Str("b".into()))))),
        };
        g.rules.push(GRule { name: "COMMENT".into(), ty: t, expr: body });
    }
    if head & 0xF0 == 0xF0 {
        let k = c.below(gram::SHADOW_NAMES.len());
        let idx = c.below(nrules);
        g.rules[idx].name = gram::SHADOW_NAMES[k].to_string();
    }
    let (hw, hc) = (g.has("WHITESPACE"), g.has("COMMENT"));
    for r in g.rules.iter_mut() {
        drop_named(hw, hc, &mut r.expr);
    }
    gram::repair(&mut g);
    // input specs: a pseudo-random stream keyed by the whole input (libFuzzer's units are mostly shorter than a
    // grammar plus a dozen specs, and an exhausted cursor would make every derivation choice zero)
    let mut specs = vec![];
    let mut x = fw::hash_of(data);
    for _ in 0..12 {
        x = fw::splitmix(x);
        let kind = (x % 4) as u8;
        let n = 4 + (x >> 8) as usize % 36;
        let choices = (0..n)
            .map(|_| {
                x = fw::splitmix(x);
                x as u16
            })
            .collect();
        specs.push(inputs::InputSpec { kind, choices });
    }
    (g, specs)
}

fn known(prop: &str, sig: &str) -> bool {
    static KNOWN: std::sync::OnceLock<Vec<(String, String)>> = std::sync::OnceLock::new();
    let k = KNOWN.get_or_init(|| fw::load_known().into_iter().filter(|k| k.status == "open").map(|k| (k.property, k.signature)).collect());
    k.iter().any(|(p, s)| p == prop && s == sig)
}

fn report(prop: &str, f: fw::Fail) {
    if known(prop, &f.sig) {
        return;
    }
    eprintln!("PV-VIOLATION {} {}", f.sig, f.msg);
    eprintln!("PV-REPLAY-JSON {}", serde_json::json!({"property": prop, "signature": f.sig, "message": f.msg, "case": f.case}));
    std::process::abort();
}

fuzz_target!(|data: &[u8]| {
    // libfuzzer-sys aborts inside its panic hook, before any catch_unwind of the oracles can classify the panic:
    // replace the hook once (a panic that escapes the target still aborts in libfuzzer-sys's own wrapper)
    static HOOK: std::sync::Once = std::sync::Once::new();
    HOOK.call_once(|| std::panic::set_hook(Box::new(|info| eprintln!("panic: {info}"))));
    // process-global switches of the code under test, reset at the top of every iteration
    pest::set_call_limit(None);
    pest::set_error_detail(false);
    pest_meta::validator::verif::reset(usize::MAX);
    if data.len() < 16 {
        return;
    }
    let (g, specs) = decode(&data[1..]);
    if std::env::var_os("PV_DUMP").is_some() {
        eprintln!("--- grammar:\n{}specs: {:?}", gram::print_grammar(&g), specs.iter().map(|s| (s.kind, s.choices.len())).collect::<Vec<_>>());
    }
    let mut ctx = fw::Ctx::bare("C01");
    if let Err(f) = c01::check_case(&mut ctx, &g, &specs) {
        report("C01", f);
    }
    match data[0] / 4 % 4 {
        0 => {
            let mut ctx = fw::Ctx::bare("C05");
            if let Err(f) = c05::check_grammar(&mut ctx, &g, 3) {
                report("C05", f);
            }
        }
        1 => {
            let mut ctx = fw::Ctx::bare("C12");
            if let Err(f) = c12::check_case(&mut ctx, &g, &specs[..2]) {
                report("C12", f);
            }
        }
        2 => {
            let mut ctx = fw::Ctx::bare("C15");
            if let Err(f) = c15::check_case(&mut ctx, &g, &specs) {
                report("C15", f);
            }
        }
        _ => {}
    }
});
