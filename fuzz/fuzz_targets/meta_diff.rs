#![no_main]
//! C14 in-target: checked-in meta parser vs grammar.pest through optimizer+VM vs freshly derived parser.
#![allow(dead_code, unexpected_cfgs, unused_imports)]
#[path = "../../harness/pv/src/fw.rs"]
mod fw;
#[path = "../../harness/pv/src/gram.rs"]
mod gram;
#[path = "../../harness/pv/src/inputs.rs"]
mod inputs;
#[path = "../../harness/pv/src/refsem.rs"]
mod refsem;
#[path = "../../harness/pv/src/vmrun.rs"]
mod vmrun;
#[path = "../../harness/pv/src/c07.rs"]
mod c07;
#[path = "../../harness/pv/src/c09.rs"]
mod c09;
#[path = "../../harness/pv/src/c14.rs"]
mod c14;

use libfuzzer_sys::fuzz_target;
use std::sync::OnceLock;

struct Eng(c14::Engines);
unsafe impl Sync for Eng {}
unsafe impl Send for Eng {}
static ENGINES: OnceLock<Eng> = OnceLock::new();

fuzz_target!(|data: &[u8]| {
    // libfuzzer-sys aborts inside its panic hook, before any catch_unwind of the oracles can classify the panic:
    // replace the hook once (a panic that escapes the target still aborts in libfuzzer-sys's own wrapper)
    static HOOK: std::sync::Once = std::sync::Once::new();
    HOOK.call_once(|| std::panic::set_hook(Box::new(|info| eprintln!("panic: {info}"))));
    // process-global switches of the code under test, reset at the top of every iteration
    pest::set_call_limit(None);
    pest::set_error_detail(false);
    pest_meta::validator::verif::reset(usize::MAX);
    if data.len() < 2 || data.len() > 2048 {
        return;
    }
    let Ok(text) = std::str::from_utf8(&data[1..]) else { return };
    if !c09::within_bounds(text) {
        return;
    }
    let e = &ENGINES.get_or_init(|| Eng(c14::engines().expect("engines"))).0;
    // first byte selects the start rule (top rule for 3 values out of 4)
    let idx = if data[0] % 4 != 0 { 0 } else { (data[0] as usize / 4) % e.table.len() };
    let mut ctx = fw::Ctx::bare("C14");
    if let Err(f) = c14::check_text(&mut ctx, e, text, idx, "libfuzzer") {
        // open known findings are excluded (the campaign would otherwise end at the first rediscovery)
        static KNOWN: std::sync::OnceLock<Vec<String>> = std::sync::OnceLock::new();
        let known = KNOWN.get_or_init(|| fw::load_known().into_iter().filter(|k| k.property == "C14" && k.status == "open").map(|k| k.signature).collect());
        if known.contains(&f.sig) {
            return;
        }
        eprintln!("PV-VIOLATION {} {}", f.sig, f.msg);
        eprintln!("PV-REPLAY-JSON {}", serde_json::json!({"property": "C14", "signature": f.sig, "message": f.msg, "case": f.case}));
        std::process::abort();
    }
});
