#![no_main]
//! C18 in-target: JsonParser accepts iff RFC 8259, token tree mirrors the document.
#![allow(dead_code, unexpected_cfgs, unused_imports)]
#[path = "../../harness/pv/src/fw.rs"]
mod fw;
#[path = "../../harness/pv/src/c18.rs"]
mod c18;

use libfuzzer_sys::fuzz_target;

fuzz_target!(|data: &[u8]| {
    let Ok(text) = std::str::from_utf8(data) else { return };
    if text.len() > 2048 {
        return;
    }
    // deep nesting is bounded like in the generated tier (the generated parser recurses per level)
    if text.bytes().filter(|b| *b == b'[' || *b == b'{').count() > 60 {
        return;
    }
    let mut ctx = fw::Ctx::bare("C18");
    if let Err(f) = c18::check_doc(&mut ctx, text, "libfuzzer", false) {
        eprintln!("PV-VIOLATION {} {}", f.sig, f.msg);
        std::process::abort();
    }
});
