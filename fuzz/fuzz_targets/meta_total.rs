#![no_main]
//! C09 in-target: any text -> rules or located, renderable errors; never a panic.
#![allow(dead_code, unexpected_cfgs, unused_imports)]
#[path = "../../harness/pv/src/fw.rs"]
mod fw;
#[path = "../../harness/pv/src/gram.rs"]
mod gram;
#[path = "../../harness/pv/src/inputs.rs"]
mod inputs;
#[path = "../../harness/pv/src/refsem.rs"]
mod refsem;
#[path = "../../harness/pv/src/vmrun.rs"]
mod vmrun;
#[path = "../../harness/pv/src/c09.rs"]
mod c09;

use libfuzzer_sys::fuzz_target;

fuzz_target!(|data: &[u8]| {
    // libfuzzer-sys aborts inside its panic hook, before any catch_unwind of the oracles can classify the panic:
    // replace the hook once (a panic that escapes the target still aborts in libfuzzer-sys's own wrapper)
    static HOOK: std::sync::Once = std::sync::Once::new();
    HOOK.call_once(|| std::panic::set_hook(Box::new(|info| eprintln!("panic: {info}"))));
    // process-global switches of the code under test, reset at the top of every iteration
    pest::set_call_limit(None);
    pest::set_error_detail(false);
    pest_meta::validator::verif::reset(usize::MAX);
    let Ok(text) = std::str::from_utf8(data) else { return };
    let mut ctx = fw::Ctx::bare("C09");
    if let Err(f) = c09::check_text(&mut ctx, text, "libfuzzer") {
        // open known findings are excluded (the campaign would otherwise end at the first rediscovery)
        static KNOWN: std::sync::OnceLock<Vec<String>> = std::sync::OnceLock::new();
        let known = KNOWN.get_or_init(|| fw::load_known().into_iter().filter(|k| k.property == "C09" && k.status == "open").map(|k| k.signature).collect());
        if known.contains(&f.sig) {
            return;
        }
        eprintln!("PV-VIOLATION {} {}", f.sig, f.msg);
        eprintln!("PV-REPLAY-JSON {}", serde_json::json!({"property": "C09", "signature": f.sig, "message": f.msg, "case": f.case}));
        std::process::abort();
    }
});
